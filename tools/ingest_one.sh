#!/bin/sh
# tools/ingest_one.sh <sub-agent out dir (…/Cxx/out/A)> <seeded id (Cxx-S)>: copy, confirm, run the own-property quick check.
d="$1"; id="$2"; p=${id%%-*}
cd /verif
[ -f "$d/patch.diff" ] && [ -f "$d/meta.json" ] && [ -f "$d/demo.py" ] || { echo "INCOMPLETE $id"; exit 0; }
if [ ! -d "seeded/$id" ]; then mkdir -p "seeded/$id" && cp "$d/patch.diff" "$d/demo.py" "$d/meta.json" "seeded/$id/"; fi
v=$(tools/verify_seeded.sh "seeded/$id")
m=$(tools/mutant.sh "seeded/$id/patch.diff" quick "$p" 2>&1 | cut -c1-330)
echo "$v"; echo "   $m"
