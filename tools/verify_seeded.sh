#!/bin/sh
# tools/verify_seeded.sh <seeded-dir>   (dir has patch.diff, demo.py, meta.json)
# Confirms in a scratch worktree: demo passes on HEAD; patch applies; suite still 340/340; demo fails with the patch.
D=$(cd "$1" && pwd)
WT=$(mktemp -d /var/tmp/seedv.XXXXXX); rmdir "$WT"
git -C /repo worktree add -q --detach "$WT" HEAD || exit 3
r0=x; r1=x; rb=x; ap=ok
SISMIC_PATH="$WT" timeout 300 /venv/bin/python -B "$D/demo.py" >/dev/null 2>&1; r0=$?
git -C "$WT" apply "$D/patch.diff" 2>/dev/null || ap=FAIL
if [ $ap = ok ]; then
  python3 /verif/tools/baseline.py "$WT" >/dev/null 2>&1; rb=$?
  SISMIC_PATH="$WT" timeout 300 /venv/bin/python -B "$D/demo.py" >/dev/null 2>&1; r1=$?
fi
git -C /repo worktree remove --force "$WT"
v=BAD; [ "$r0" = 0 ] && [ $ap = ok ] && [ "$rb" = 0 ] && [ "$r1" = 1 ] && v=CONFIRMED
echo "SEEDED $(basename "$D") demo_on_head=$r0 apply=$ap suite=$rb demo_with_patch=$r1 => $v"
