#!/bin/sh
# tools/mutant.sh <patch-file | revert:<commit>> <tier> <id> [<id> ...]
# Applies a patch (or reverts a fix commit) in a scratch worktree of /repo under /var/tmp, runs the given checks
# against it (VERIF_REPO), prints one line per check, removes the worktree.  Never touches /repo's working tree.
set -u
P="$1"; TIER="$2"; shift 2
case "$P" in revert:*) ;; /*) ;; *) P="$(pwd)/$P" ;; esac
WT=$(mktemp -d /var/tmp/mut.XXXXXX)
rmdir "$WT"
git -C /repo worktree add -q --detach "$WT" HEAD || exit 3
case "$P" in
  revert:*) c="${P#revert:}"; git -C "$WT" show "$c" | git -C "$WT" apply -R || { echo "cannot revert $c"; git -C /repo worktree remove --force "$WT"; exit 3; } ;;
  *) git -C "$WT" apply "$P" || { echo "cannot apply $P"; git -C /repo worktree remove --force "$WT"; exit 3; } ;;
esac
cd /verif
for id in "$@"; do
  out=$(VERIF_REPO="$WT" VERIF_OUT="$WT/.vout" ./check "$id" "$TIER" 2>&1); rc=$?
  n=$(printf '%s\n' "$out" | grep -c '^VIOLATION')
  key=$(printf '%s\n' "$out" | grep -m1 'witness\[' | cut -c1-200)
  echo "MUTANT $P check=$id tier=$TIER exit=$rc violations=$n $key"
done
git -C /repo worktree remove --force "$WT"
