#!/usr/bin/env python3
"""Regenerate /verif/MANIFEST.json from the table below (single source of truth for what is claimed)."""
import json
import os

HERE = os.path.dirname(os.path.dirname(os.path.abspath(__file__)))

# id -> (category, technique, level text, level note, design ref)
CHECKS = {
    'C01': ('exploration', 'runtime monitor: reference-model oracle evaluated after every execute_once of generated runs',
            'Held on N thousand generated statecharts x histories x guard valuations: after every macro step the fired set, '
            'the consumed event and the event seen by each guard probe equal what the documented selection rule gives. '
            'Sampling of a universally quantified property, not a proof; evidence counts the steps where priority, '
            'inner-first and eventless pre-emption actually discriminated; half of the charts put one guard text, whose answer depends '
            'on the event shown, on an eventless and an event-triggered transition of one state.',
            'trusted: seeded generator domain (DESIGN §2), reference model vf/refmodel.py, CPython', '§4 C01'),
    'C02': ('exploration', 'runtime monitor: legality postcondition on every return of execute_once',
            'legal()/stable()/final-stays-empty evaluated after every step of generated runs biased to orthogonal content '
            'and to region entry from outside; evidence counts distinct configurations with active orthogonal states.',
            'trusted: legal() in vf/refmodel.py written against the abstract chart, generator domain', '§4 C02'),
    'C03': ('exploration', 'runtime monitor: trace-specification checker (probe log vs returned MacroStep + order rules)',
            'Every state/transition carries logging probes; the executed code sequence must equal what the MacroStep lists, '
            'micro step by micro step, and the order rules of the statement are checked on every step.',
            'trusted: probes passed through initial_context, generator domain; cousin order is deliberately not judged', '§4 C03'),
    'C04': ('exploration', 'runtime monitor: error-classification oracle + atomicity snapshot around execute_once',
            'On "clash" charts the model classifies every pair of selected transitions; exact exception class, nothing '
            'run/changed/consumed, and no spurious error for orthogonal selections.',
            'trusted: reference model pair classification, generator domain', '§4 C04'),
    'C05': ('exploration', 'runtime monitor: history checker against an executable two-queue model, unique event ids, drain',
            'Every event has a unique id; the model predicts the consumed event of every step; exactly-once after drain.',
            'trusted: queue model in vf/refmodel.py; dyadic times make float arithmetic exact', '§4 C05'),
    'C06': ('exploration', 'runtime monitor: history-memory model vs observed restoring micro steps',
            'The model reconstructs what was active at the last exit of each history parent and compares every restore.',
            'trusted: reference model, generator domain (history-heavy mode)', '§4 C06'),
    'C07': ('exploration', 'runtime differential monitor: real run vs real run under permuted declarations, repetition and other PYTHONHASHSEED child processes',
            'Lock-step comparison of every macro step between builds of one abstract chart that differ only in declaration '
            'order (API and YAML), a repetition, and trace digests recomputed in child processes with other hash seeds.',
            'trusted: canonical projection in vf/lockstep.py; hash seeds and permutations are sampled', '§4 C07'),
    'C08': ('fault_enumeration', 'runtime monitor: trace-grammar checker on fault-free runs + single-fault enumeration over condition occurrences',
            'Every condition is a probe; the fault-free log must match the documented checkpoint grammar incl. __old__ values; '
            'then each (sampled / every) condition occurrence is made to fail and the raised class, obj, condition and the '
            'end of the log are checked.',
            'trusted: probes via initial_context; invariant-block order between states canonicalised', '§4 C08'),
    'C09': ('exploration', 'runtime differential monitor: contract-checked run vs ignore_contract=True run in lock-step',
            'Generated contract charts (incl. would-fail conditions, time predicates) and the two shipped contract charts; '
            'steps, contexts, code sequence and meta-event streams compared; zero condition evaluations when ignored; one state in '
            'five uses one code text as precondition, entry code and guard.',
            'trusted: lock-step projection; conditions side-effect free apart from probes', '§4 C09'),
    'C10': ('exploration', 'runtime monitor: meta-event stream checker (listener + recording property statechart), k-th-event fail-fast fault plan, with/without differential',
            'The stream received by a listener and by a bound property statechart must equal the stream implied by the '
            'MacroStep, interleaved with the code probes; a property chart turning final at meta-event k must make that call '
            'raise with the log ending at k; never-final property charts must not change the run; a timeout property chart (delayed '
            'event sent to itself, plain bind form) must fail exactly at the first meta-event past its deadline; failing property '
            'charts need up to 25 macro steps of their own.',
            'trusted: expected-stream construction from the MacroStep (itself validated by C03)', '§4 C10'),
    'C13': ('exploration', 'runtime monitor: logged predicate values vs time-stamp model, clock moved between and inside steps',
            'time/after/idle values logged by guards and contract conditions are recomputed exactly from observed entry/'
            'firing stamps; time frozen per step under mid-step clock moves.',
            'trusted: stamp model in vf/props/c13.py; dyadic times', '§4 C13'),
    'C11': ('exploration', 'runtime monitor: structural field comparison + == + second round trip + lock-step differential run of original vs re-import',
            'Generated charts with YAML-significant/unicode/multi-line/>80-column strings in every field, API-built with shuffled '
            'declarations; export/import compared field by field, by ==, re-exported, and executed side by side.',
            'trusted: ruamel.yaml itself for characters excluded in ASSUMPTIONS; comparison code in vf/props/c11.py', '§4 C11'),
    'C12': ('fault_enumeration', 'runtime fault injection: every listed fault at every position of generated valid documents (pairs/triples in thorough) + independent soundness checker on accepted results',
            'Each fault operator provably produces a listed fault; a faulted document must raise StatechartError; valid documents must be '
            'accepted and sound. Exhaustive over positions per document, sampled over documents.',
            'trusted: fault operators and the soundness checker in vf/props/c12.py', '§4 C12'),
    'C16': ('exploration', 'model-based runtime monitor: dict model of the seven editing operations in lock-step, soundness rules, pre/post snapshots for atomicity',
            'Random sequences of valid and invalid editing calls on generated and empty statecharts; view == model, soundness, failed edit '
            'changes nothing.',
            'trusted: the dict model (docstrings as specification)', '§4 C16'),
    'C17': ('exploration', 'runtime differential monitor with name map: original vs rename_state-d chart, guest alone vs guest plugged with copy_from_statechart',
            'Order-preserving renamings of random subsets (optionally after a warm-up execution) and host/guest pairs (whole chart or '
            'sub-tree of a donor; one guest in seven declares a transition twice), compared in lock-step up to the renaming.',
            'trusted: lock-step projection, fixed-width naming scheme', '§4 C17'),
    'C14': ('exploration', 'runtime monitor: scripted time source (module attribute replaced from outside) + exact Fraction model / bounds',
            'Random clock-operation sequences against an exact rational model (real time moving only between operations), against '
            'bounds when the scripted source also advances inside operations, and SynchronizedClock vs the followed interpreter.',
            'trusted: the Fraction model in vf/props/c14.py; dyadic values', '§4 C14'),
    'C15': ('exploration', 'runtime monitor: delivery-history checker over a shared log with unique event ids, bind/detach at boundaries and inside callbacks',
            '2-4 interpreters, random topologies (cycles, callables, duplicates); the deliveries observed at the target boundary must '
            'equal sent_events x bindings in order; each sender later consumes its own internal events exactly once.',
            'trusted: delivery log recorded by wrapping target.queue / callables before bind()', '§4 C15'),
    'C18': ('fault_enumeration', 'runtime differential monitor with crash-point enumeration: control vs original vs pickle/deepcopy-restored interpreter',
            'Snapshot at sampled/every macro-step boundary by pickle and deepcopy of the whole object graph (bound peer, property '
            'statechart); lock-step comparison of everything observable afterwards, incl. the __old__ values read by contracts.',
            'trusted: in-context log; boundaries and methods enumerated per case, cases sampled', '§4 C18'),
    'C19': ('exploration', 'runtime end-to-end differential monitor: behave/execute_bdd statuses in a child process vs facts recomputed on a plain interpreter',
            'Generated executable charts and feature files using every predefined step in the documented spelling; every step status '
            'must match the oracle (passed until the first false fact, that one failed, rest skipped); sismic.testing predicates vs '
            'direct readings of random MacroStep lists.',
            'trusted: the plain-interpreter oracle in vf/props/c19.py; behave 1.3.3 JSON formatter', '§4 C19'),
    'C20': ('exploration', 'runtime monitor: controlled scheduler (interposed Events/thread/time/bisect/queue lists, logical deadlock detection) + free-running stress, client-boundary history checker',
            'Seeded interleavings of runner vs 1-3 client threads at interposed synchronisation points (three strategies) and real-thread '
            'stress runs; the recorded history is checked for reporting, exactly-once/FIFO/due order/bounded progress and lifecycle rules.',
            'trusted: cooperative look-alikes in vf/sched.py; only interleavings at interposed points (controlled) or produced by the OS (stress)', '§4 C20'),
}

NOT_YET = {
}


def main():
    checks = []
    for pid, (cat, tech, text, note, ref) in sorted(CHECKS.items()):
        checks.append(dict(
            property_id=pid,
            quick_cmd='./check %s quick' % pid,
            thorough_cmd='./check %s thorough' % pid,
            evidence_file='/verif/evidence/%s.json' % pid,
            replay_cmd_template='./check %s --replay {path}' % pid,
            engine='vf',
            level_claimed=dict(category=cat, text=text, design_ref='DESIGN.md ' + ref),
            level_note=note,
            technique=tech))
    props = [json.loads(l)['id'] for l in open(os.path.join(HERE, 'properties.jsonl'))]
    na = [dict(property_id=p, reason=NOT_YET.get(p, 'check not built yet (work in progress; see DESIGN.md §4 for the planned monitor)'))
          for p in props if p not in CHECKS]
    man = dict(
        version=1,
        setup_cmd='/venv/bin/python -B -c "import sys; sys.path.insert(0, \'/verif\'); import vf.run, vf.worker; print(\'vf ok\')"',
        hooks=dict(guard='SISMIC_VERIF',
                   enable='no source hooks: the monitors interpose from outside (initial_context probes, Interpreter.attach, '
                          'module attributes replaced by the harness); SISMIC_VERIF is never read by /repo',
                   baseline_off_cmd='cd /repo && env -u SISMIC_VERIF /venv/bin/python -m pytest -ra -q -p no:cacheprovider '
                                    '--timeout=900 --continue-on-collection-errors',
                   source_commits=[], add_only=True),
        engines=[dict(name='vf', path='/verif/vf', serves_properties=sorted(CHECKS),
                      kind_free_text='pure-Python runtime-monitoring framework: seeded generators, probes, reference '
                                     'models, lock-step differential runs, controlled scheduler; sharded over 16 '
                                     'worker subprocesses')],
        checks=checks,
        notes='Exit codes: 0 held on everything observed, 1 VIOLATION (replay file written), 2 INCONCLUSIVE (a deciding '
              'monitor was not reached / worker watchdog / more than max(2, cases/2000) cases that could not be judged - fewer are listed in a '
              'NOTE line and in the evidence file, never counted as held). VERIF_SEED selects the workload; VERIF_REPO (default /repo) is '
              'the tree under test. Known findings: /verif/known_findings.json.',
        not_applicable=na)
    with open(os.path.join(HERE, 'MANIFEST.json'), 'w') as f:
        json.dump(man, f, indent=1)
    print('MANIFEST.json: %d checks, %d not_applicable' % (len(checks), len(na)))


if __name__ == '__main__':
    main()
