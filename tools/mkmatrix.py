#!/usr/bin/env python3
"""Write /verif/seeded/MATRIX.md from the meta.json files (run tools/seeded_matrix.py first)."""
import json, os
HERE = os.path.dirname(os.path.dirname(os.path.abspath(__file__)))
rows = []
for sid in sorted(os.listdir(os.path.join(HERE, 'seeded'))):
    mp = os.path.join(HERE, 'seeded', sid, 'meta.json')
    if not os.path.exists(mp):
        continue
    m = json.load(open(mp))
    d = m.get('detection', {})
    if m.get('superseded'):
        res = 'superseded by a fix (see meta.json)'
    elif not d:
        res = 'not run yet'
    elif not d.get('applies_to_head', True):
        res = 'patch does not apply to HEAD'
    elif d.get('exit') == 1:
        res = 'CAUGHT by `./check %s %s` (%s)' % (d['check'], d['tier'], ', '.join(d.get('keys', [])[:2]))
    else:
        res = '**missed** by `./check %s %s`' % (d.get('check'), d.get('tier'))
    also = m.get('also_caught_by')
    if also:
        res += '; also: ' + also
    rows.append((sid, m.get('breaks', m.get('property')), (m.get('title') or '').replace('|', '/')[:110], (m.get('needs') or '').replace('|', '/').replace('\n', ' ')[:160], res))
with open(os.path.join(HERE, 'seeded', 'MATRIX.md'), 'w') as f:
    f.write('# Seeded changes and the checks that catch them\n\n'
            'Each change was written by an independent sub-agent that saw only the property text and a scratch worktree; it was kept after the '
            'main session confirmed (tools/verify_seeded.sh): patch applies, repository suite still 340/340, demonstration fails with the '
            'patch and passes without. Detection = quick tier of the check of the property it breaks, run against a scratch worktree; when that '
            'check is silent the other 19 are tried and the first one that fires is recorded (tools/seeded_matrix.py).  Rounds of up to 40: '
            '-A/-B, -C/-D, ... -S/-T, a selection -U/-V; rounds 2-8 were told the titles of all earlier ones and asked for different, harder mechanisms, '
            'rounds 9-11 saw the property text only.  '
            'Misses are discussed in DESIGN.md section 10.\n\n'
            '| id | breaks | change | needs | result |\n|---|---|---|---|---|\n')
    for r in rows:
        f.write('| %s | %s | %s | %s | %s |\n' % r)
    caught = sum(1 for r in rows if r[4].startswith('CAUGHT'))
    own = sum(1 for r, sid in zip(rows, [r[0] for r in rows]) if r[4].startswith('CAUGHT by `./check %s ' % sid.split('-')[0]))
    f.write('\n%d changes: %d caught by the quick tier of their own property\'s check, %d more by another property\'s check, %d missed.\n'
            % (len(rows), own, caught - own, len(rows) - caught - sum(1 for r in rows if r[4].startswith('superseded'))))
print(len(rows), 'rows')
