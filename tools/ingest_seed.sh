#!/bin/sh
# tools/ingest_seed.sh <round dir (/tmp/seed3)> <letter for A> <letter for B>
# Copies finished sub-agent outputs into /verif/seeded/<Cxx>-<letter>, confirms them, runs the own-property quick check.
R="$1"; LA="$2"; LB="$3"
cd /verif
for d in "$R"/C*/out/[AB]; do
  p=$(echo "$d" | sed 's|.*/\(C[0-9]*\)/out/.*|\1|'); ab=$(basename "$d")
  n=$( [ "$ab" = A ] && echo "$LA" || echo "$LB" ); id="$p-$n"
  if [ -f "$d/patch.diff" ] && [ -f "$d/meta.json" ] && [ -f "$d/demo.py" ] && [ ! -d "seeded/$id" ]; then
    mkdir -p "seeded/$id" && cp "$d/patch.diff" "$d/demo.py" "$d/meta.json" "seeded/$id/"
    v=$(tools/verify_seeded.sh "seeded/$id")
    m=$(tools/mutant.sh "seeded/$id/patch.diff" quick "$p" 2>&1 | cut -c1-260)
    echo "$v"; echo "   $m"
  fi
done
