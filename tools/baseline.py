#!/usr/bin/env python3
"""Run the repository's pinned test-suite (guard off) and compare with /root/.vp/BASELINE.json.
usage: tools/baseline.py [repo_dir]   -> exit 0 iff every stable_pass test passed."""
import json, os, subprocess, sys, tempfile, xml.etree.ElementTree as ET
repo = sys.argv[1] if len(sys.argv) > 1 else '/repo'
base = json.load(open('/root/.vp/BASELINE.json'))
with tempfile.TemporaryDirectory() as d:
    out = os.path.join(d, 'j.xml')
    env = dict(os.environ); env.pop('SISMIC_VERIF', None)
    env['PYTHONPATH'] = repo
    p = subprocess.run(['/venv/bin/python', '-B', '-m', 'pytest', '-ra', '-q', '-p', 'no:cacheprovider',
                        '--timeout=900', '--continue-on-collection-errors', '--junitxml=' + out],
                       cwd=repo, env=env, stdout=subprocess.PIPE, stderr=subprocess.STDOUT, text=True)
    passed = set()
    for tc in ET.parse(out).getroot().iter('testcase'):
        if not any(c.tag in ('failure', 'error', 'skipped') for c in tc):
            passed.add('%s::%s' % (tc.get('classname'), tc.get('name')))
missing = [t for t in base['stable_pass'] if t not in passed]
print('passed=%d stable_pass=%d missing=%d' % (len(passed), len(base['stable_pass']), len(missing)))
for m in missing: print('  NOT PASSING:', m)
sys.exit(1 if missing else 0)
