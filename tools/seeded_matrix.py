#!/usr/bin/env python3
"""Run every seeded change under /verif/seeded against the quick check of the property it breaks (scratch worktree,
VERIF_REPO), and record the outcome in seeded/<id>/meta.json and seeded/MATRIX.md.
usage: tools/seeded_matrix.py [ids...]"""
import json, os, subprocess, sys, tempfile, re
HERE = os.path.dirname(os.path.dirname(os.path.abspath(__file__)))
ids = sys.argv[1:] or sorted(d for d in os.listdir(os.path.join(HERE, 'seeded')) if os.path.isdir(os.path.join(HERE, 'seeded', d)))
rows = []
for sid in ids:
    d = os.path.join(HERE, 'seeded', sid)
    meta = json.load(open(os.path.join(d, 'meta.json')))
    prop = meta.get('property') or sid.split('-')[0]
    wt = tempfile.mkdtemp(prefix='sm.', dir='/var/tmp'); os.rmdir(wt)
    subprocess.run(['git', '-C', '/repo', 'worktree', 'add', '-q', '--detach', wt, 'HEAD'], check=True)
    try:
        ap = subprocess.run(['git', '-C', wt, 'apply', os.path.join(d, 'patch.diff')], capture_output=True, text=True)
        if ap.returncode != 0:
            res = dict(applies_to_head=False, note=ap.stderr.strip()[:200])
        else:
            env = dict(os.environ, VERIF_REPO=wt, VERIF_OUT=os.path.join(wt, '.vout'), VERIF_FIRST_VIOLATION='1')
            # the check of the property the change was written against first; if that one is silent, the others
            allp = ['C%02d' % i for i in range(1, 21)]
            for chk in [prop] + ([] if os.environ.get('MATRIX_OWN_ONLY') else [c for c in allp if c != prop]):
                p = subprocess.run(['./check', chk, 'quick'], cwd=HERE, env=env, capture_output=True, text=True)
                if p.returncode == 1:
                    break
            else:
                chk = prop
                p = subprocess.run(['./check', prop, 'quick'], cwd=HERE, env=env, capture_output=True, text=True)
            out = p.stdout
            keys = sorted(set(re.findall(r'witness\[([^\]]+)\]', out)))
            res = dict(applies_to_head=True, check=chk, tier='quick', exit=p.returncode,
                       violations=len(re.findall(r'^VIOLATION', out, re.M)), keys=keys,
                       head=subprocess.run(['git', '-C', '/repo', 'rev-parse', '--short', 'HEAD'], capture_output=True, text=True).stdout.strip())
    finally:
        subprocess.run(['git', '-C', '/repo', 'worktree', 'remove', '--force', wt])
    meta['detection'] = res
    json.dump(meta, open(os.path.join(d, 'meta.json'), 'w'), indent=1)
    rows.append((sid, prop, res))
    print(sid, res, flush=True)
