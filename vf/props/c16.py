"""C16 – structural editing keeps a statechart sound; failed edits change nothing (DESIGN §4 C16).

Model-based runtime monitor: an independent dict model of the documented effect of the seven editing operations is
driven in lock-step with the real Statechart through random sequences of valid *and* invalid calls; after every call
the public view must equal the model's, the soundness rules must hold, and a rejected call must leave the view
untouched."""
from collections import Counter

from ..common import import_sismic
from ..gen import gen_chart
from .. import build

import_sismic()
from sismic.exceptions import StatechartError  # noqa: E402
from sismic.model import (BasicState, CompoundState, DeepHistoryState, FinalState, OrthogonalState,  # noqa: E402
                          ShallowHistoryState, Statechart, Transition)

PID = 'C16'
LEVEL = 'exploration'
RULE = ('One case = a generated statechart (or the empty one) + a random sequence of 10-40 editing calls (add/remove/rename/move '
        'state, add/remove/rotate transition) whose arguments are drawn from valid and invalid spaces (unknown names, existing '
        'names, descendants, non-composite parents, history under non-compound, transitions from final/history states, both '
        'rotate arguments empty, valid source + invalid target...). After every call: public view == model view; soundness rules; '
        'rejected call => view unchanged. Non-trivial = distinct (operation, outcome, structural context class) triples; '
        'rejected calls with a partially valid argument list are counted separately.  Transition objects are tracked by identity (equal '
        'look-alikes, also ones differing by contract only; objects taken out are re-used); before the derived queries are asked the parent '
        'relation is walked with a step bound (cycle / second root = violation).')
ASSUMPTIONS = ['docstrings of sismic.model.Statechart are the specification of each operation',
               'move_state under a non-composite parent is accepted by the code and not forbidden by the statement: the model follows '
               'the code there; only the listed soundness rules are judged',
               'states added by the workload carry no dangling initial/memory of their own']
OPS = ['add_state', 'remove_state', 'rename_state', 'move_state', 'add_transition', 'remove_transition', 'rotate_transition']
REQUIRED_COUNTERS = ['look_alike_transitions_differing_by_contract', 'held_transition_object_reused', 'removed_object_added_again', 'history_state_as_initial', 'removed_name_reused', 'ops_ok', 'ops_rejected', 'views_compared', 'atomicity_checks', 'rejected_partially_valid'] + \
    ['ok_' + o for o in OPS] + ['rejected_' + o for o in OPS]
KIND = {BasicState: 'basic', CompoundState: 'compound', OrthogonalState: 'orthogonal', FinalState: 'final',
        ShallowHistoryState: 'shallow', DeepHistoryState: 'deep'}
KLASS = {v: k for k, v in KIND.items()}
TKINDS = ('basic', 'compound', 'orthogonal')
COMPOSITE = ('compound', 'orthogonal')


def plan(tier):
    return dict(cases=16000 if tier == 'quick' else 200000, shards=16, timeout=900 if tier == 'quick' else 3600)


def sig(t):
    return (t.guard, t.action, tuple(t.preconditions), tuple(t.postconditions), tuple(t.invariants))


class BrokenTree(Exception):
    pass


def tree_problem(sc):
    """A cheap structural look that cannot loop: is the parent relation still a tree under one root?  (The derived queries
    ancestors_for / depth_for walk it without a bound: on a cycle they never return.)"""
    names = sc.states
    for n in names:
        p, k = sc.parent_for(n), 0
        while p is not None:
            k += 1
            if k > len(names):
                return 'the parent relation has a cycle through %r' % n
            p = sc.parent_for(p)
    roots = [n for n in names if sc.parent_for(n) is None]
    if names and len(roots) != 1:
        return 'states without parent: %r' % roots
    return None


def view(sc):
    prob = tree_problem(sc)
    if prob:
        raise BrokenTree(prob)
    v = {}
    names = sc.states
    for i, n in enumerate(names):
        s = sc.state_for(n)
        other = names[(i + 1) % len(names)]
        v[n] = (KIND[type(s)], sc.parent_for(n), tuple(sorted(sc.children_for(n))), getattr(s, 'initial', None),
                getattr(s, 'memory', None), s.name,
                # derived queries (must agree with the parent/children relation, whatever was cached before the edit)
                tuple(sc.ancestors_for(n)), sc.depth_for(n), tuple(sorted(sc.descendants_for(n))),
                sc.least_common_ancestor(n, other))
    tr = Counter((t.source, t.target, t.event, t.internal, t.priority) for t in sc.transitions)
    return v, tr, sc.root


class Model:
    """Documented effect of each operation on plain dicts.  Raises Rejected where the docs promise an error."""

    class Rejected(Exception):
        pass

    def __init__(self):
        self.st = {}        # name -> dict(kind, parent, children=set, initial, memory)
        self.tr = []        # list of [source, target, event, priority, oid, sig]  (oid = id() of the real Transition object;
                            # sig = the other fields Transition.__eq__ looks at: guard, action, contracts)
        self.loose = {}     # oid -> last known value of a Transition object that is not registered (any more)

    def anc(self, n):
        out = []
        p = self.st[n]['parent']
        while p is not None:
            out.append(p)
            p = self.st[p]['parent']
        return out

    def view(self):
        names = sorted(self.st)
        v = {}
        for i, n in enumerate(names):
            s = self.st[n]
            other = names[(i + 1) % len(names)]
            a = self.anc(n)
            ao = self.anc(other)
            lca = next((x for x in a if x in ao), None)
            v[n] = (s['kind'], s['parent'], tuple(sorted(s['children'])), s['initial'], s['memory'], n,
                    tuple(a), len(a) + 1, tuple(sorted(self.desc(n))), lca)
        tr = Counter((t[0], t[1], t[2], t[1] is None, t[3]) for t in self.tr)
        roots = [n for n, s in self.st.items() if s['parent'] is None]
        return v, tr, (roots[0] if roots else None)

    def value_of(self, oid):
        for t in self.tr:
            if t[4] == oid:
                return tuple(t[:4]) + (t[5],)
        return self.loose.get(oid)

    def desc(self, n):
        out = []
        todo = [n]
        while todo:
            x = todo.pop()
            for c in self.st[x]['children']:
                out.append(c)
                todo.append(c)
        return out

    def root(self):
        return next((n for n, s in self.st.items() if s['parent'] is None), None)

    def add_state(self, name, kind, parent, initial=None, memory=None):
        if name is None or name in self.st:
            raise Model.Rejected('name')
        if not parent:
            if self.root() is not None:
                raise Model.Rejected('root exists')
            if kind in ('shallow', 'deep'):
                raise Model.Rejected('history as root')
            parent = None
        else:
            if parent not in self.st:
                raise Model.Rejected('unknown parent')
            pk = self.st[parent]['kind']
            if pk not in COMPOSITE:
                raise Model.Rejected('parent not composite')
            if kind in ('shallow', 'deep') and pk != 'compound':
                raise Model.Rejected('history under non-compound')
        self.st[name] = dict(kind=kind, parent=parent, children=set(), initial=initial, memory=memory)
        if parent is not None:
            self.st[parent]['children'].add(name)

    def remove_state(self, name):
        if name not in self.st:
            raise Model.Rejected('unknown')
        gone = set([name] + self.desc(name))
        for t in self.tr:
            if (t[0] in gone or t[1] in gone) and t[4] is not None:
                self.loose[t[4]] = tuple(t[:4]) + (t[5],)
        self.tr = [t for t in self.tr if t[0] not in gone and t[1] not in gone]
        p = self.st[name]['parent']
        for g in gone:
            del self.st[g]
        if p is not None:
            self.st[p]['children'].discard(name)
        for s in self.st.values():
            if s['initial'] in gone:
                s['initial'] = None
            if s['memory'] in gone:
                s['memory'] = None

    def rename_state(self, old, new):
        if old == new:
            return
        if new in self.st:
            raise Model.Rejected('exists')
        if old not in self.st:
            raise Model.Rejected('unknown')
        s = self.st.pop(old)
        self.st[new] = s
        if s['parent'] is not None:
            ch = self.st[s['parent']]['children']
            ch.discard(old)
            ch.add(new)
        for c in s['children']:
            self.st[c]['parent'] = new
        for o in self.st.values():
            if o['initial'] == old and o['kind'] == 'compound':
                o['initial'] = new
            if o['memory'] == old and o['kind'] in ('shallow', 'deep'):
                o['memory'] = new
        for t in self.tr:
            if t[0] == old:
                t[0] = new
            if t[1] == old:
                t[1] = new

    def move_state(self, name, new_parent):
        if name not in self.st or new_parent not in self.st:
            raise Model.Rejected('unknown')
        if new_parent == name or new_parent in self.desc(name):
            raise Model.Rejected('into itself')
        s = self.st[name]
        if s['parent'] is not None:
            self.st[s['parent']]['children'].discard(name)
        s['parent'] = new_parent
        self.st[new_parent]['children'].add(name)
        if s['kind'] in ('shallow', 'deep'):
            s['memory'] = None
        for o in self.st.values():
            if o['kind'] == 'compound' and o['initial'] == name:
                o['initial'] = None
            if o['kind'] in ('shallow', 'deep') and o['memory'] == name:
                o['memory'] = None

    def add_transition(self, source, target, event, priority, oid=None, sig=None):
        if source not in self.st:
            raise Model.Rejected('unknown source')
        if self.st[source]['kind'] not in TKINDS:
            raise Model.Rejected('source cannot own transitions')
        if target is not None and target not in self.st:
            raise Model.Rejected('unknown target')
        self.tr.append([source, target, event, priority, oid, sig])
        self.loose.pop(oid, None)

    def remove_transition(self, key):
        for t in self.tr:
            if tuple(t[:4]) + (t[5],) == key:
                self.tr.remove(t)
                if t[4] is not None:
                    self.loose[t[4]] = key
                return
        raise Model.Rejected('no such transition')

    def rotate_transition(self, key, new_source, new_target, oid=None):
        if new_source == '' and new_target == '':
            raise ValueError('both empty')
        if not any(tuple(t[:4]) + (t[5],) == key for t in self.tr):
            raise Model.Rejected('no such transition')
        # "Rotate given transition": the object that is passed is the one that changes (an equal but unregistered object is
        # accepted by the membership test, and then only that object changes - the statechart does not)
        t = next((t for t in self.tr if t[4] == oid and oid is not None), None)
        if t is None and oid is None:
            t = next(t for t in self.tr if tuple(t[:4]) + (t[5],) == key)
        if new_source != '':
            if new_source not in self.st:
                raise Model.Rejected('unknown source')
            if self.st[new_source]['kind'] not in TKINDS:
                raise Model.Rejected('source cannot own transitions')
        if new_target != '' and new_target is not None and new_target not in self.st:
            raise Model.Rejected('unknown target')
        if t is None:
            v = list(key)
            if new_source != '':
                v[0] = new_source
            if new_target != '':
                v[1] = new_target
            self.loose[oid] = tuple(v)
            return
        if new_source != '':
            t[0] = new_source
        if new_target != '':
            t[1] = new_target


def sound(sc):
    v, tr, root = view(sc)
    roots = [n for n, x in v.items() if x[1] is None]
    if v and (len(roots) != 1 or root != roots[0]):
        return 'roots %r (root property %r)' % (roots, root)
    for n, (k, p, c, i, m, nm, _a, _d, _ds, _l) in v.items():
        if nm != n:
            return 'state registered as %r calls itself %r' % (n, nm)
        if p is not None and (p not in v or n not in v[p][2]):
            return 'parent/children disagree for %r' % n
        for ch in c:
            if ch not in v or v[ch][1] != n:
                return 'child link %r -> %r broken' % (n, ch)
        if i is not None and i not in v:
            return 'dangling initial %r of %r' % (i, n)
        if m is not None and m not in v:
            return 'dangling memory %r of %r' % (m, n)
    if v:
        seen = set()
        todo = [root]
        while todo:
            x = todo.pop()
            if x in seen:
                return 'cycle at %r' % x
            seen.add(x)
            todo += list(v[x][2])
        if seen != set(v):
            return 'not one tree: unreachable %r' % sorted(set(v) - seen)
    for (s, t, e, i, pr), c in tr.items():
        if s not in v or v[s][0] not in TKINDS:
            return 'transition from %r which may not own transitions / does not exist' % (s,)
        if t is not None and t not in v:
            return 'transition towards missing state %r' % (t,)
    try:
        if sc.validate() is not True:
            return 'validate() returned a falsy value'
    except StatechartError as e:
        return 'validate() fails: %s' % e
    return True


def run_case(acc, rnd, tier, case):
    fresh = ('N%d' % i for i in range(1000))
    m = Model()
    if rnd.random() < 0.12:
        sc = Statechart('empty')
        acc.count('started_from_empty')
    else:
        ch = gen_chart(rnd, max_states=rnd.choice((6, 10, 14)), max_depth=4, max_trans=10, p_hist=0.4, p_final=0.3,
                       mode=rnd.choice((None, 'history', 'orth', 'clash')))
        sc, tm = build.build_api(ch)
        for n in ch['order']:
            s = ch['states'][n]
            ini = s['initial']
            hk = [c for c in s['children'] if ch['states'][c]['kind'] in ('shallow', 'deep')]
            if s['kind'] == 'compound' and hk and rnd.random() < 0.4:
                ini = rnd.choice(hk)            # a history state may be the initial state of its parent (tests/yaml/history.yaml)
                sc.state_for(n).initial = ini
                acc.count('history_state_as_initial')
            m.add_state(n, s['kind'], s['parent'], ini, s['memory'])
        by_id = {tm[id(x)]: x for x in sc.transitions}
        for t in ch['transitions']:
            m.add_transition(t['source'], t['target'], t['event'], t['priority'], oid=id(by_id[t['id']]), sig=sig(by_id[t['id']]))
    if view(sc) != m.view():
        acc.violation('C16:initial-view', 'view after construction differs from the model', dict(real=view(sc), model=m.view()))
        return
    nops = rnd.randint(10, 40 if tier == 'quick' else 80)
    history = []
    removed = []
    removed_objs = {}
    held = []           # Transition objects the 'client' keeps a reference to across operations
    keepalive = list(sc.transitions)    # every Transition object whose id() the model knows stays alive (ids are never re-used)
    for k in range(nops):
        names = sc.states

        def pick(p_bad=0.08):
            if names and rnd.random() > p_bad:
                return rnd.choice(names)
            return rnd.choice(['nope', 'N999', ''])
        before = view(sc)
        op = rnd.choices(OPS, weights=(4, 1, 2, 2, 3, 1, 3))[0]
        partially_valid = False
        call = None
        try:
            if op == 'add_state':
                nm = next(fresh) if rnd.random() < 0.8 else pick(0.0)
                if nm == '':
                    nm = next(fresh)        # W1: names are non-empty
                gone = [x for x in removed if x not in names and x]
                if gone and rnd.random() < 0.3:
                    nm = rnd.choice(gone)   # re-use the name of a state that was removed earlier
                    acc.count('removed_name_reused')
                par = (pick() if names else None) if rnd.random() < 0.95 else None
                kind = rnd.choice(['basic', 'basic', 'compound', 'orthogonal', 'final', 'shallow', 'deep'])
                kw = {}
                if kind in ('shallow', 'deep') and par in names and rnd.random() < 0.5:
                    sib = [c for c in sc.children_for(par)]
                    if sib:
                        kw['memory'] = rnd.choice(sib)
                call = ('add_state', nm, kind, par, kw)
                partially_valid = (nm not in names) != (par in names)
                mm = lambda: m.add_state(nm, kind, par, None, kw.get('memory'))      # noqa: E731
                rr = lambda: sc.add_state(KLASS[kind](nm, **kw), par)                # noqa: E731
                reuse = [x for x in removed_objs if x not in names]
                if reuse and rnd.random() < 0.25:
                    # the very state object that remove_state() took out is added again (its children are gone, and so is
                    # - as documented - every initial reference to them)
                    nm = rnd.choice(reuse)
                    obj = removed_objs.pop(nm)
                    kind = KIND[type(obj)]
                    call = ('add_state', nm, kind, par, 'same object as removed')
                    partially_valid = False
                    mm = lambda: m.add_state(nm, kind, par, None, None)              # noqa: E731
                    rr = lambda: sc.add_state(obj, par)                              # noqa: E731
                    acc.count('removed_object_added_again')
            elif op == 'remove_state':
                a = pick()
                if a in names:
                    # remember the objects that are about to leave the statechart (state itself and its descendants)
                    for x in [a] + sc.descendants_for(a):
                        o_ = sc.state_for(x)
                        if KIND[type(o_)] in ('basic', 'compound', 'orthogonal', 'final'):
                            removed_objs[x] = o_
                call = ('remove_state', a)
                mm = lambda: m.remove_state(a)       # noqa: E731
                rr = lambda: sc.remove_state(a)      # noqa: E731
            elif op == 'rename_state':
                a = pick()
                b = next(fresh) if rnd.random() < 0.7 else pick(0.05)
                if b == '':
                    b = next(fresh)
                call = ('rename_state', a, b)
                partially_valid = (a in names) and (b in names) and a != b
                mm = lambda: m.rename_state(a, b)    # noqa: E731
                rr = lambda: sc.rename_state(a, b)   # noqa: E731
            elif op == 'move_state':
                a, b = pick(), pick()
                call = ('move_state', a, b)
                partially_valid = (a in names) != (b in names) or (a in names and b in names and b in [a] + sc.descendants_for(a))
                mm = lambda: m.move_state(a, b)      # noqa: E731
                rr = lambda: sc.move_state(a, b)     # noqa: E731
            elif op == 'add_transition':
                a = pick()
                b = None if rnd.random() < 0.25 else pick()
                ev = rnd.choice([None, 'e', 'f'])
                pr = rnd.choice([0, 0, 1, -1])
                call = ('add_transition', a, b, ev, pr)
                partially_valid = (a in names) != (b is None or b in names)
                newt = Transition(a, b, event=ev, priority=pr)
                if sc.transitions and rnd.random() < 0.3:
                    # a look-alike of a registered transition: same arrow, guard and action, but another contract.
                    # It is a different transition (equality covers the contract).
                    o = rnd.choice(sc.transitions)
                    a, b, ev, pr = o.source, o.target, o.event, o.priority
                    call = ('add_transition', a, b, ev, pr)
                    partially_valid = False
                    newt = Transition(a, b, event=ev, guard=o.guard, action=o.action, priority=pr)
                    newt.preconditions.extend(o.preconditions)
                    newt.postconditions.extend(o.postconditions)
                    newt.invariants.extend(o.invariants)
                    getattr(newt, rnd.choice(('preconditions', 'postconditions', 'invariants'))).append('1 == %d' % rnd.randint(1, 3))
                    acc.count('look_alike_transitions_differing_by_contract')
                held.append(newt)
                keepalive.append(newt)
                mm = lambda: m.add_transition(a, b, ev, pr, oid=id(newt), sig=sig(newt))            # noqa: E731
                rr = lambda: sc.add_transition(newt)                                 # noqa: E731
            elif op == 'remove_transition':
                ts = sc.transitions
                if held and rnd.random() < 0.3:
                    t = rnd.choice(held)        # an object used in an earlier call
                    acc.count('held_transition_object_reused')
                elif ts and rnd.random() < 0.85:
                    t = rnd.choice(ts)
                    if rnd.random() < 0.3:       # an equal copy designates the same transition
                        t = Transition(t.source, t.target, event=t.event, guard=t.guard, action=t.action, priority=t.priority)
                        t.preconditions, t.postconditions, t.invariants = list(t.preconditions), list(t.postconditions), list(t.invariants)
                        o = next(x for x in ts if x == t)
                        t.preconditions, t.postconditions, t.invariants = list(o.preconditions), list(o.postconditions), list(o.invariants)
                        if rnd.random() < 0.3:
                            t.invariants.append('2 == 2')        # ... and a copy with another contract designates nothing
                else:
                    t = Transition(pick(), pick(), event='never')
                keepalive.append(t)
                key = m.value_of(id(t)) or (t.source, t.target, t.event, t.priority, sig(t))
                call = ('remove_transition',) + key[:4]
                mm = lambda: m.remove_transition(key)    # noqa: E731
                rr = lambda: sc.remove_transition(t)     # noqa: E731
            else:
                ts = sc.transitions
                if held and rnd.random() < 0.3:
                    t = rnd.choice(held)
                    acc.count('held_transition_object_reused')
                elif ts and rnd.random() < 0.9:
                    t = rnd.choice(ts)
                    if rnd.random() < 0.4:
                        held.append(t)
                else:
                    t = Transition(pick(), pick(), event='never')
                keepalive.append(t)
                key = m.value_of(id(t)) or (t.source, t.target, t.event, t.priority, sig(t))
                kw = {}
                if rnd.random() < 0.65:
                    kw['new_source'] = pick(0.2)
                if rnd.random() < 0.65:
                    kw['new_target'] = None if rnd.random() < 0.2 else pick(0.25)
                call = ('rotate_transition',) + key[:4] + (dict(kw),)
                ns, nt = kw.get('new_source', ''), kw.get('new_target', '')
                ok_s = ns == '' or (ns in names and KIND[type(sc.state_for(ns))] in TKINDS)
                ok_t = nt == '' or nt is None or nt in names
                partially_valid = len(kw) == 2 and (ok_s != ok_t)
                mm = lambda: m.rotate_transition(key, ns, nt, oid=id(t))        # noqa: E731
                rr = lambda: sc.rotate_transition(t, **kw)           # noqa: E731
        except StopIteration:
            break
        history.append(call)
        wit = dict(history=history[-25:], before=before)
        # model first (it does not touch the real object)
        try:
            mm()
            want = 'ok'
        except Model.Rejected as e:
            want = 'rejected'
        except ValueError:
            want = 'rejected'
        try:
            rr()
            got = 'ok'
        except (StatechartError, ValueError) as e:
            got = 'rejected'
            err = e
        except Exception as e:      # noqa
            acc.violation('C16:other-exception', '%r raised %s: %s' % (call, type(e).__name__, str(e)[:200]), wit)
            return
        ctx = context_class(op, before, call)
        prob = tree_problem(sc)
        if prob:
            acc.violation('C16:statechart-is-not-a-tree-anymore', '%r (%s; the documented behaviour is %s) left a statechart in '
                          'which %s' % (call, got, want, prob), wit)
            return
        if got != want:
            acc.violation('C16:outcome-differs', '%r was %s, the documented behaviour is %s' % (call, got, want),
                          dict(wit, after=view(sc)))
            return
        after = view(sc)
        acc.count('views_compared')
        if got == 'rejected':
            acc.count('ops_rejected')
            acc.count('rejected_' + op)
            acc.count('atomicity_checks')
            if partially_valid:
                acc.count('rejected_partially_valid')
            if after != before:
                acc.violation('C16:failed-edit-changed-statechart', '%r raised %s but changed the statechart: %s'
                              % (call, type(err).__name__, diff(before, after)), dict(wit, after=after))
                return
        else:
            acc.count('ops_ok')
            acc.count('ok_' + op)
            if op in ('remove_state', 'rename_state'):
                removed.extend(x for x in before[0] if x not in after[0])
            mv = m.view()
            if after != mv:
                acc.violation('C16:effect-differs-from-documentation', '%r: %s' % (call, diff(mv, after, 'documented', 'actual')),
                              dict(wit, after=after, model=mv))
                return
            s = sound(sc)
            if s is not True:
                acc.violation('C16:unsound-after-successful-edit', '%r left the statechart unsound: %s' % (call, s), dict(wit, after=after))
                return
        acc.nontrivial((op, got, ctx), cls=op + ':' + got)
    acc.sample(dict(ops=history[:8]), limit=2)


def context_class(op, before, call):
    v = before[0]
    a = call[1] if len(call) > 1 else None
    if op == 'add_state':
        a = call[3]
    if a in v:
        k, p, c, i, m = v[a][:5]
        return (k, 'root' if p is None else 'child', 'has_children' if c else 'leaf',
                'is_initial_or_memory' if any(x[3] == a or x[4] == a for x in v.values()) else '-')
    return ('unknown',)


def diff(a, b, la='before', lb='after'):
    va, ta, ra = a
    vb, tb, rb = b
    out = []
    if ra != rb:
        out.append('root %r vs %r' % (ra, rb))
    for n in sorted(set(va) | set(vb), key=str):
        if va.get(n) != vb.get(n):
            out.append('state %r: %s=%r %s=%r' % (n, la, va.get(n), lb, vb.get(n)))
    if ta != tb:
        out.append('transitions only %s: %r; only %s: %r' % (la, list((ta - tb).elements())[:3], lb, list((tb - ta).elements())[:3]))
    return '; '.join(out[:4])
