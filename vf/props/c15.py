"""C15 – bound statecharts: every sent internal event reaches every bound target once, in order (DESIGN §4 C15)."""
from collections import Counter

from ..common import import_sismic
from ..gen import gen_chart
from ..probes import Probes, make_val
from .. import build

import_sismic()
from sismic.interpreter import Interpreter  # noqa: E402
from sismic.model import Event, InternalEvent, MetaEvent  # noqa: E402

PID = 'C15'
LEVEL = 'exploration'
RULE = ('One case = 2-4 interpreters running generated charts that send events (with parameters and delays) and notify, a random '
        'binding topology (interpreters and plain callables as targets, cycles, self-binding, the same target bound twice), random '
        'interleaving of queue / clock / execute_once / bind / detach at step boundaries, and callbacks that detach themselves or '
        'another binding while an event is being delivered. Every sent event carries a unique id; all deliveries go to one shared '
        'log. After every execute_once the slice of the log must equal: for each InternalEvent of MacroStep.sent_events in order, '
        'one plain Event (same name and parameters, delay included) to each binding still attached at that moment, in binding '
        'order; nothing else (no notify, no consumed external event, nothing after detach); and every sent event must later be '
        'consumed exactly once as an internal event by its sender. Non-trivial = distinct (topology, step) with >= 2 bindings '
        'and >= 2 sends in one step. 1 case in 12: two interpreters bound in a cycle and stepped by two threads under the controlled '
        'scheduler (deadlock detection, delivery exactly once and in order after a drain). Every internal event listed in a returned MacroStep must have been '
        'sent by code run during that very call (ids are handed out at the send() call).')
ASSUMPTIONS = ['bind() is called at step boundaries and as the first statement of transition actions (such a target must get every event '
               'whose send() call came later; for events of the same micro step sent earlier, by exit code, either answer is accepted); '
               'bind() is not called from inside a delivery (the statement does not say whether such a target receives the event being '
               'delivered); detach() is also called from inside callbacks',
               'after a call of execute_once that raised (non-determinism, a planned failure of an action that had already called send) '
               'the interpreter is used further; for it only the delivery rules are judged, not the consumption of its own internal events',
               'generated charts per DESIGN §2']
REQUIRED_COUNTERS = ['listener_object_attached_twice', 'bind_from_action_code', 'action_raised_after_sending', 'steps_returned_after_an_earlier_raise', 'bound_method_targets_without_other_reference', 'threaded_schedules', 'threaded_deliveries_checked', 'sender_steps_checked', 'deliveries_checked', 'steps_with_2plus_bindings_and_2plus_sends', 'detach_inside_callback',
                     'self_detach_inside_callback', 'detach_at_boundary', 'delayed_events_delivered', 'notify_not_forwarded',
                     'own_internal_consumptions', 'cyclic_topologies', 'same_target_bound_twice', 'sends_while_becoming_final']
TIERS = dict(quick=dict(ticks=70, gen=dict(max_states=9, max_depth=3, max_trans=10)),
             thorough=dict(ticks=160, gen=dict(max_states=14, max_depth=4, max_trans=18)))


def plan(tier):
    return dict(cases=4000 if tier == 'quick' else 40000, shards=16, timeout=900 if tier == 'quick' else 3600)


class Node:
    pass


class RefCoder(build.Coder):
    """sends also carry ref=REF, an object of the sender's context that compares by identity"""

    def _with_ref(self, code):
        return code.replace('u=U()', 'u=U(), ref=REF')

    def entry(self, ch, n):
        return self._with_ref(build.Coder.entry(self, ch, n))

    def exit(self, ch, n):
        return self._with_ref(build.Coder.exit(self, ch, n))

    def action(self, ch, t):
        code = self._with_ref(build.Coder.action(self, ch, t))
        k = int(t['id'][1:])
        if k % 5 == 0:
            code = 'B(%r)\n' % t['id'] + code          # the action first binds a new target, then sends: the new target gets those events
        if k % 7 == 3:
            code = code + '\nBOOM(%r)' % t['id']        # the action sends, then raises (once): nothing of it may surface later
        return code


def run_case(acc, rnd, tier, case):
    if case % 12 == 11:
        from .. import threaded
        return threaded.bound_cycle(acc, rnd, PID)
    T = TIERS[tier]
    n = rnd.choice((2, 2, 3, 4))
    dlog = []           # shared delivery log: (target id, type name, name, data)
    nodes = []
    for i in range(n):
        nd = Node()
        nd.i = i
        nd.ch = gen_chart(rnd, mode=rnd.choice((None, 'orth', 'queue')), p_send=0.7, p_state_send=0.35, p_notify=0.3,
                          p_final=0.4, p_eventless=0.15, **T['gen'])
        # notify() names that look like pieces of the documented meta-event names: they are user meta-events all the same
        for lst in [t['sends'] for t in nd.ch['transitions']] + [x for s_ in nd.ch['states'].values() for x in (s_['sends_entry'], s_['sends_exit'])]:
            for snd_ in lst:
                if snd_['kind'] == 'notify' and rnd.random() < 0.5:
                    snd_['name'] = rnd.choice(('sent', 'event', 'e', 'event sent!', 'step'))
        nd.sc, nd.tmap = build.build_api(nd.ch, coder=RefCoder())
        nd.pr = Probes(val=make_val(rnd.random(), rnd.choice((0.6, 0.9, 1.0))), first_uid=100000 * (i + 1))
        nd.ref = object()       # a parameter that only compares equal to itself (e.g. a reply mailbox)
        nd.bindings = []        # model: ordered list of [handle, target id]
        nd.boomed = set()
        nd.bound_by_code = set()

        def B(key, _nd=nd):
            if key in _nd.bound_by_code:
                return
            _nd.bound_by_code.add(key)
            tid = ('cb', 100 + 10 * _nd.i + len(_nd.bound_by_code))

            def cb(ev, _tid=tid):
                dlog.append((_tid, type(ev).__name__, ev.name, dict(ev.data)))
            h = _nd.it.bind(cb)
            _nd.bindings.append([h, tid])
            dlog.append(('BIND', id(h), tid, _nd.i))
            _nd.pr.log.append(('BIND', id(h)))
            acc.count('bind_from_action_code')

        def BOOM(key, _nd=nd):
            if key not in _nd.boomed:
                _nd.boomed.add(key)
                acc.count('action_raised_after_sending')
                raise RuntimeError('planned failure in the action of %s' % key)
        nd.it = Interpreter(nd.sc, initial_context=nd.pr.context(REF=nd.ref, B=B, BOOM=BOOM))
        nd.sent = {}            # uid -> name of internal events this node sent
        nd.consumed = Counter()
        nd.dead = False
        nd.wounded = 0          # number of calls that raised: the interpreter is used further, only delivery rules are judged
        nd.quiet = 0
        real_queue = nd.it.queue

        def wrapper(ev, *a, _i=i, _rq=real_queue, **kw):
            dlog.append((('interp', _i), type(ev).__name__, getattr(ev, 'name', None), dict(getattr(ev, 'data', {}))))
            run_hooks(('interp', _i))
            return _rq(ev, *a, **kw)
        nd.it.queue = wrapper           # bind(interpreter) captures interpreter.queue: deliveries are observed at the boundary
        nd.harness_queue = real_queue
        nodes.append(nd)
    hooks = {}          # target id -> list of [countdown, sender index, handle to detach]
    stats = dict(inside=0)

    bombs = {}          # target id -> deliveries left before that receiver fails once

    def run_hooks(tid):
        if tid in bombs:
            bombs[tid] -= 1
            if bombs[tid] <= 0:
                del bombs[tid]
                acc.count('receiver_raised_during_delivery')
                raise RuntimeError('planned failure of receiver %r' % (tid,))
        for h in hooks.get(tid, []):
            if h[0] is None:
                continue
            h[0] -= 1
            if h[0] == 0:
                h[0] = None
                snd = nodes[h[1]]
                ent = next((b for b in snd.bindings if b[0] is h[2]), None)
                if ent is not None:
                    snd.it.detach(h[2])
                    snd.bindings.remove(ent)
                    dlog.append(('DETACH', id(h[2]), snd.i))
                    if rnd.random() < 0.3:
                        # the same callback binds a replacement (fail-over): the detached one gets nothing any more; whether the
                        # new one gets what was sent before it was bound is left open
                        ntid = ('cb', 500 + len(dlog))

                        def ncb(ev, _t=ntid):
                            dlog.append((_t, type(ev).__name__, ev.name, dict(ev.data)))
                        nh = snd.it.bind(ncb)
                        snd.bindings.append([nh, ntid])
                        dlog.append(('BIND', id(nh), ntid, snd.i))
                        snd.pr.log.append(('BIND', id(nh)))
                        acc.count('bind_inside_detaching_callback')
                    stats['inside'] += 1
                    acc.count('detach_inside_callback')
                    if ent[1] == tid:
                        acc.count('self_detach_inside_callback')

    callables = {}

    class Dispatcher:
        """A callable target that also happens to have an (unrelated) callable attribute called queue."""

        def __init__(self, k):
            self.k = k

        def __call__(self, ev):
            dlog.append((('cb', self.k), type(ev).__name__, ev.name, dict(ev.data)))
            run_hooks(('cb', self.k))

        def queue(self, job):
            dlog.append((('cb', self.k), 'WRONG-ENTRY-POINT', getattr(job, 'name', None), {}))

    class Relay:
        """A target given as a bound method of an object nobody else refers to (sender.bind(Relay(k).forward))."""

        def __init__(self, k):
            self.k = k

        def forward(self, ev):
            dlog.append((('cb', self.k), type(ev).__name__, ev.name, dict(ev.data)))
            run_hooks(('cb', self.k))
            # a receiver may do what it wants with the event it got (tag it, drop its delay before re-queueing it...):
            # every target gets its own event
            ev.data['seen_by'] = self.k
            ev.data.pop('delay', None)

    def make_cb(k):
        if k % 2 == 1:
            return 'relay'      # created afresh at every bind(): the binding is the only reference to the object
        if k == 2:
            return Dispatcher(k)
        def cb(ev):
            dlog.append((('cb', k), type(ev).__name__, ev.name, dict(ev.data)))
            run_hooks(('cb', k))
            ev.data['seen_by'] = k
        return cb
    for k in range(rnd.randint(2, 3)):
        callables[('cb', k)] = make_cb(k)
    import gc
    gc.collect()
    targets = [('interp', i) for i in range(n)] + list(callables)

    def do_bind(snd, tid):
        others = [(s2, b) for s2 in nodes if s2 is not snd for b in s2.bindings if all(b[0] is not x[0] for x in snd.bindings)]
        if others and rnd.random() < 0.1:
            # the very listener object another bind() returned is attached (documented low-level attach) to this sender as well:
            # two attachments of one object; detaching one of them is no business of the other
            s2, b = rnd.choice(others)
            snd.it.attach(b[0])
            snd.bindings.append([b[0], b[1]])
            acc.count('listener_object_attached_twice')
            if b[1][0] == 'cb' and b[1] not in bombs and rnd.random() < 0.35:
                # that receiver fails once; the sender that was delivering is given up (never used again) - the other
                # interpreter the same listener object is attached to goes on being served
                bombs[b[1]] = rnd.randint(1, 3)
            return b[0]
        if tid[0] == 'interp':
            h = snd.it.bind(nodes[tid[1]].it)
        elif callables[tid] == 'relay':
            h = snd.it.bind(Relay(tid[1]).forward)
            acc.count('bound_method_targets_without_other_reference')
        else:
            h = snd.it.bind(callables[tid])
        if any(b[1] == tid for b in snd.bindings):
            acc.count('same_target_bound_twice')
        snd.bindings.append([h, tid])
        if rnd.random() < 0.3:
            # plan: on its k-th delivery this target detaches a binding of some sender (itself or another)
            cands = [(s.i, b[0]) for s in nodes for b in s.bindings]
            s_i, hh = rnd.choice(cands)
            n_del = rnd.randint(1, 4)
            hooks.setdefault(tid, []).append([n_del, s_i, hh])
            if rnd.random() < 0.4 and len(cands) > 1:
                # the same delivery detaches a second binding (itself + an earlier one, two earlier ones, ...)
                s_j, h2 = rnd.choice([c for c in cands if c[1] is not hh])
                hooks[tid].append([n_del, s_j, h2])
                acc.count('double_detach_planned')
        return h

    # initial topology
    for snd in nodes:
        for _ in range(rnd.choice((1, 2, 2, 3, 4))):
            do_bind(snd, rnd.choice(targets))
    edges = {(s.i, b[1][1]) for s in nodes for b in s.bindings if b[1][0] == 'interp'}
    if any((b, a) in edges for (a, b) in edges):
        acc.count('cyclic_topologies')
    history = []
    wit = dict(charts=[nd.ch for nd in nodes], history=history)
    ext_uid = [0]
    for tick in range(T['ticks']):
        nd = rnd.choice(nodes)
        r = rnd.random()
        if r < 0.2:
            ext_uid[0] += 1
            name = rnd.choice(nd.ch['events'])
            d = rnd.choice((0, 0, 1))
            nd.harness_queue(Event(name, u=ext_uid[0], delay=d) if d else Event(name, u=ext_uid[0]))
            history.append(('queue', nd.i, name, ext_uid[0]))
        elif r < 0.3:
            nd.it.clock.time += rnd.choice((0.5, 1, 2, 5))
            history.append(('clock', nd.i))
        elif r < 0.36:
            t = rnd.choice(targets)
            do_bind(nd, t)
            history.append(('bind', nd.i, t))
        elif r < 0.42 and nd.bindings:
            b = rnd.choice(nd.bindings)
            nd.it.detach(b[0])
            nd.bindings.remove(b)
            acc.count('detach_at_boundary')
            history.append(('detach', nd.i, b[1]))
        else:
            if nd.dead:
                continue
            if not step_and_check(acc, rnd, nd, nodes, dlog, history, wit):
                return
    # drain: every node eventually consumes its own internal events exactly once
    for nd in nodes:
        if nd.dead:
            continue
        nd.it.clock.time += 100
        for _ in range(40):
            if not step_and_check(acc, rnd, nd, nodes, dlog, history, wit):
                return
            if nd.dead or nd.quiet >= 2:
                break
        if nd.quiet >= 2 and not nd.dead and not nd.wounded:
            missing = [u for u in nd.sent if nd.consumed[u] != 1 and nd.sent[u][1] <= nd.it.time]
            if missing:
                acc.violation('C15:not-queued-for-sender', 'interpreter %d sent internal events %r but never consumed them itself'
                              % (nd.i, [(u, nd.sent[u][0]) for u in missing[:5]]), wit)
                return
            acc.count('nodes_drained')


def step_and_check(acc, rnd, nd, nodes, dlog, history, wit):
    mark = len(dlog)
    bindings_before = [list(b) for b in nd.bindings]
    nd.pr.stepno += 1
    del nd.pr.log[:]
    was_final = nd.it.final
    try:
        step = nd.it.execute_once()
    except Exception as e:  # noqa  (non-determinism of a generated chart, a planned failure of an action)
        # the interpreter is used further (a caller may catch the error and go on): whatever it does then, what it delivers
        # must be what the MacroSteps it returns list as sent
        planned = 'planned failure' in str(e)
        if not planned and not nd.wounded and type(e).__name__ not in ('NonDeterminismError', 'ConflictingTransitionsError'):
            # neither a conflict of the generated chart nor one of the failures this workload plans, on an interpreter no call of
            # which had raised before: something in the delivery machinery raised (the interpreter is not used any further)
            acc.violation('C15:unexpected-exception', 'interpreter %d: execute_once raised %s: %s' % (nd.i, type(e).__name__,
                                                                                                     str(e)[:300].replace('\n', ' ')), wit)
            return False
        nd.wounded += 1
        if nd.wounded > 4 or 'planned failure of receiver' in str(e):
            nd.dead = True
        history.append(('raise', nd.i, type(e).__name__))
        return True
    got = dlog[mark:]
    history.append(('step', nd.i, str(step)[:120]))
    history[:] = history[-40:]
    if step is None:
        nd.quiet += 1
        if [g for g in got if g[0] not in ('DETACH', 'BIND')]:
            acc.violation('C15:delivery-without-step', 'interpreter %d delivered %r while execute_once returned None' % (nd.i, got[:3]), wit)
            return False
        return True
    nd.quiet = 0
    if step.event is not None and isinstance(step.event, InternalEvent):
        u = step.event.data.get('u')
        nd.consumed[u] += 1
        acc.count('own_internal_consumptions')
        if not nd.wounded and (u not in nd.sent or nd.consumed[u] > 1):
            acc.violation('C15:own-queue', 'interpreter %d consumed internal event %r %s' %
                          (nd.i, u, 'twice' if u in nd.sent else 'which it never sent'), wit)
            return False
    sent = [e for e in step.sent_events if isinstance(e, InternalEvent)]
    metas = [e for e in step.sent_events if isinstance(e, MetaEvent)]
    if metas:
        acc.count('notify_not_forwarded', len(metas))
    for e in sent:
        if e.data.get('z') == 1 and e.data.get('delay', None) != 0:
            acc.violation('C15:parameters-lost', 'interpreter %d: the code sent %r with delay=0 explicitly; the event listed and '
                          'delivered carries %r' % (nd.i, e.name, dict(e.data)), wit)
            return False
    for e in sent:
        nd.sent[e.data['u']] = (e.name, step.time + e.data.get('delay', 0))
    if sent and nd.it.final and not was_final:
        acc.count('sends_while_becoming_final')
    # expected deliveries: for each sent event, in order, one delivery to every binding (in binding order) that is
    # still attached at that moment; detachments made by callbacks are marked in the log at the exact position.
    # Bindings made by the action code of this step (B(...) first thing in an action) are marked in the log too: such a
    # target must get every event whose send() call came after the bind() call; for events of the same micro step whose
    # send() came before (exit code runs before the action) either answer is accepted.
    plog = nd.pr.log
    pos = {}
    for i, ent in enumerate(plog):
        if ent[0] in ('U', 'BIND'):
            pos[(ent[0], ent[1])] = i
    ghosts = [(e.name, e.data.get('u')) for e in sent if ('U', e.data.get('u')) not in pos]
    if ghosts:
        acc.violation('C15:sent-event-not-sent-by-this-step', 'interpreter %d: the returned MacroStep lists %r as sent, but no code run '
                      'by this call of execute_once sent them (ids handed out during the call: %r)'
                      % (nd.i, ghosts[:4], [k[1] for k in pos if k[0] == 'U'][:8]), wit)
        return False
    gi = 0
    detached = set()
    ok = True
    active = [[id(b[0]), b[1], False] for b in bindings_before]

    def markers():
        nonlocal gi
        while gi < len(got) and got[gi][0] in ('DETACH', 'BIND'):
            if got[gi][0] == 'DETACH':
                if got[gi][2] == nd.i:          # (the same listener object may be attached to another sender: not our business)
                    detached.add(got[gi][1])
            elif got[gi][3] == nd.i:
                active.append([got[gi][1], got[gi][2], True])
            gi += 1
    for e in sent:
        markers()
        for b in list(active):
            if b[0] in detached:
                continue
            want = (b[1], 'Event', e.name, dict(e.data))
            optional = b[2] and pos.get(('U', e.data.get('u')), 1 << 30) < pos.get(('BIND', b[0]), -1)
            if gi < len(got) and got[gi] == want:
                gi += 1
            elif optional:
                pass
            else:
                ok = False
                break
            markers()
        if not ok:
            break
    markers()
    got = [g for g in got if g[0] != 'DETACH'] if False else got
    if not ok or gi != len(got):
        acc.violation('C15:deliveries-differ', 'interpreter %d sent %r with bindings %r; deliveries observed %r' %
                      (nd.i, [(e.name, e.data.get('u')) for e in sent], [b[1] for b in bindings_before],
                       [(g[0], g[1], g[2], g[3].get('u')) if g[0] not in ('DETACH', 'BIND') else g[0] for g in got[:14]]), wit)
        return False
    got = [g for g in got if g[0] not in ('DETACH', 'BIND')]
    # a binding detached inside a callback of *this* step must have been detached by a delivery of this step
    acc.count('sender_steps_checked')
    if nd.wounded:
        acc.count('steps_returned_after_an_earlier_raise')
    acc.count('deliveries_checked', len(got))
    if any('delay' in g[3] for g in got):
        acc.count('delayed_events_delivered')
    if len(bindings_before) >= 2 and len(sent) >= 2:
        acc.count('steps_with_2plus_bindings_and_2plus_sends')
        acc.nontrivial((tuple(b[1] for b in bindings_before), tuple((e.name, e.data.get('u')) for e in sent)))
        acc.sample(dict(sender=nd.i, bindings=[b[1] for b in bindings_before], sent=[(e.name, dict(e.data)) for e in sent],
                        deliveries=[(g[0], g[2], g[3].get('u')) for g in got]))
    return True
