"""C03 – see DESIGN.md §4 C03.  Workload mode 'order' of the shared execution monitor (vf.execmon)."""
from .. import execmon, shipped
from ._exec_meta import META

MODE = 'order'
PID = 'C03'
LEVEL = 'exploration'
RULE = META[PID]['rule']
ASSUMPTIONS = META[PID]['assumptions']
REQUIRED_COUNTERS = META[PID]['required']


def plan(tier):
    return dict(cases=6000 if tier == "quick" else 60000, shards=16, timeout=600 if tier == 'quick' else 3000)


def run_case(acc, rnd, tier, case):
    if case % 20 == 19:
        return shipped.run_case(acc, rnd, PID, 50 if tier == 'quick' else 120)
    modes = META[PID]['modes']
    mode, _, kw = rnd.choices(modes, weights=[m[1] for m in modes])[0]
    acc.count('mode_' + mode)
    execmon.run_case(acc, rnd, tier, case, mode, PID, gen_kw=kw)
