"""C03 – see DESIGN.md §4 C03.  Workload mode 'order' of the shared execution monitor (vf.execmon)."""
from .. import execmon
from ._exec_meta import META

MODE = 'order'
PID = 'C03'
LEVEL = 'exploration'
RULE = META[PID]['rule']
ASSUMPTIONS = META[PID]['assumptions']
REQUIRED_COUNTERS = META[PID]['required']


def plan(tier):
    return dict(cases=3000 if tier == "quick" else 60000, shards=16, timeout=600 if tier == 'quick' else 3000)


def run_case(acc, rnd, tier, case):
    execmon.run_case(acc, rnd, tier, case, MODE, PID, gen_kw=META[PID].get('gen'))
