"""C17 – renaming and copying states preserves behaviour (DESIGN §4 C17): differential monitor with a name map."""
from ..common import import_sismic
from ..gen import Tree, chart_digest, gen_chart
from ..lockstep import Runner, first_difference, gen_script
from ..probes import Probes, make_val
from .. import build
from .c11 import rename_chart

import_sismic()
from sismic.interpreter import Interpreter  # noqa: E402
from sismic.model import BasicState, CompoundState, Statechart, Transition  # noqa: E402

PID = 'C17'
LEVEL = 'exploration'
RULE = ('(1) rename: a generated chart with fixed-width names is built twice from the abstract description; on the second build a '
        'random subset of states is renamed with rename_state by an order-preserving renaming (optionally after a warm-up '
        'execution of the chart); structure must follow (transition ends, internal flags, initial/memory) and the two charts are '
        'driven in lock-step: identical runs up to the name substitution. (2) copy: the chart (as a whole, or as the sub-tree of '
        'a wrapping guest statechart) is plugged into a small host with copy_from_statechart and an order-preserving '
        'renaming_func; the host run inside the plugged state must equal the guest run from its initial configuration, up to '
        'the renaming.  Non-trivial = distinct charts with >= 1 internal transition on a renamed state and >= 1 initial/memory '
        'reference to a renamed state (rename), or with >= 1 internal and >= 1 backward transition (copy).')
ASSUMPTIONS = ['renamings keep the relative lexicographic order of state names (names are the documented tie-breaker)',
               'guest charts have no final child of their root (a final child of the root ends the guest but not the host)',
               'the host never leaves the plugged state']
REQUIRED_COUNTERS = ['rejected_renames_before', 'donor_unchanged_checks', 'rename_cases', 'copy_cases', 'rename_steps_compared', 'copy_steps_compared', 'renamed_internal_sources',
                     'renamed_initial_or_memory_targets', 'warmup_before_rename', 'copy_partial_source', 'copy_with_backward_transition']
TIERS = dict(quick=dict(steps=30, gen=dict(max_states=12, max_depth=4, max_trans=14)),
             thorough=dict(steps=60, gen=dict(max_states=18, max_depth=5, max_trans=24)))


def plan(tier):
    return dict(cases=6000 if tier == 'quick' else 60000, shards=16, timeout=900 if tier == 'quick' else 3600)


def fixed_width(rnd, ch):
    """Rename the abstract chart so that names are fixed-width tokens S0010, S0020... in a random rank order."""
    names = list(ch['order'])
    rnd.shuffle(names)
    smap = {n: 'S%03d0' % (i + 1) for i, n in enumerate(names)}
    return rename_chart(ch, smap, {})


def gen_guest(rnd, T, **kw):
    for _ in range(50):
        ch = gen_chart(rnd, mode=rnd.choice((None, 'orth', 'history', 'order')), p_hist=0.35, p_internal=0.3, p_state_send=0.1,
                       **dict(T['gen'], **kw))
        root = ch['states'][ch['root']]
        if not any(ch['states'][c]['kind'] == 'final' for c in root['children']):
            return ch
    raise AssertionError('no guest chart')


def lockstep(acc, key, what, sides, script, wit, counter, first_special=None):
    """sides = [(probes, runner)], compares observation tuples step by step."""
    (pa, ra), (pb, rb) = sides
    k = 0
    for op in script:
        if op[0] != 'step':
            ra.apply(op)
            rb.apply(op)
            continue
        pa.stepno = pb.stepno = k
        oa = ra.apply(op) + (tuple((e[0], e[1]) for e in pa.log if e[0] in 'EXAU'),)
        ob = rb.apply(op) + (tuple((e[0], e[1]) for e in pb.log if e[0] in 'EXAU'),)
        if first_special is not None and k == 0:
            msg = first_special(oa, ob)
            if msg:
                acc.violation(key, '%s: first step: %s' % (what, msg), dict(wit, script=script, step=0))
                return False
        elif oa != ob:
            d = first_difference(oa, ob) or 'executed code differs: %r vs %r' % (oa[5][:12], ob[5][:12])
            acc.violation(key, '%s: step %d: %s' % (what, k, d), dict(wit, script=script, step=k))
            return False
        acc.count(counter)
        k += 1
    return True


def run_case(acc, rnd, tier, case):
    if rnd.random() < 0.55:
        rename_case(acc, rnd, tier)
    else:
        copy_case(acc, rnd, tier)


def rename_case(acc, rnd, tier):
    T = TIERS[tier]
    short = rnd.random() < 0.2
    ch = gen_chart(rnd, mode=rnd.choice((None, 'orth', 'history', 'order', 'clash')), p_hist=0.4, p_internal=0.3,
                   p_state_send=0.1, p_short_names=1.0 if short else 0.0, **T['gen'])
    if not short:
        ch = fixed_width(rnd, ch)
    tr = Tree(ch)
    acc.count('rename_cases')
    names = list(ch['order'])
    k = rnd.choice((1, 1, 2, 3, len(names)))
    subset = rnd.sample(names, min(k, len(names)))
    if rnd.random() < 0.5:
        # bias towards composite states / sources of internal transitions / initial & memory targets
        pool = [t['source'] for t in ch['transitions'] if t['target'] is None] + \
               [s['initial'] for s in ch['states'].values() if s['initial']] + \
               [s['memory'] for s in ch['states'].values() if s['memory']] + \
               [n for n in names if ch['states'][n]['children']]
        if pool:
            subset = list(set(subset + rnd.sample(pool, min(len(pool), rnd.randint(1, 3)))))
    new = {n: n[:-1] + '5' for n in subset}
    if short:
        # one- and two-letter names ('b', 'ab', 'qd'...): the next free letter / a doubled last letter, kept only where the
        # relative order of all the names stays what it was
        acc.count('rename_cases_with_short_names')
        new = {}
        for n in list(subset):
            cand = [chr(ord(n[-1]) + 1)] if len(n) == 1 else []
            cand += [n + n[-1], n[:-1] + chr(ord(n[-1]) + 1)]
            for c in cand:
                trial = dict(new)
                trial[n] = c
                mapped = [trial.get(x, x) for x in sorted(names)]
                if len(set(mapped)) == len(mapped) and mapped == sorted(mapped) and c.isalnum() and c not in names:
                    new = trial
                    break
        subset = list(new)
        if not subset:
            return
    sc_a, tmap_a = build.build_api(ch)
    sc_b, tmap_b = build.build_api(ch)
    if rnd.random() < 0.5:
        acc.count('warmup_before_rename')
        w = Interpreter(sc_b, initial_context=Probes().context())
        for e in ch['events']:
            w.queue(e)
        for _ in range(6):
            try:
                w.execute_once()
            except Exception:   # noqa
                break
        for n in sc_b.states:
            sc_b.depth_for(n)
    rnd.shuffle(subset)
    if rnd.random() < 0.4 and len(names) >= 2:
        # "try the wanted name, fall back on another one": the first attempt collides with an existing state and is rejected
        from sismic.exceptions import StatechartError
        for n in subset[:2]:
            other = rnd.choice([x for x in names if x != n])
            try:
                sc_b.rename_state(n, other)
                acc.violation('C17:rename-structure', 'rename_state(%r, %r) onto an existing name was accepted' % (n, other), dict(chart=ch))
                return
            except StatechartError:
                acc.count('rejected_renames_before')
    for n in subset:
        sc_b.rename_state(n, new[n])
    wit = dict(chart=ch, renamed=new)
    # structure follows
    R = lambda n: None if n is None else new.get(n, n)      # noqa: E731
    for t in ch['transitions']:
        if t['target'] is None and t['source'] in new:
            acc.count('renamed_internal_sources')
    n_ref = sum(1 for s in ch['states'].values() if s['initial'] in new or s['memory'] in new)
    acc.count('renamed_initial_or_memory_targets', n_ref)
    byid = {tmap_b[id(t)]: t for t in sc_b.transitions}
    for t in ch['transitions']:
        rt = byid[t['id']]
        if (rt.source, rt.target, rt.internal) != (R(t['source']), R(t['target']), t['target'] is None):
            acc.violation('C17:rename-transition-ends', 'after renaming %r transition %s is %r -> %r (internal=%r), expected %r -> %r '
                          '(internal=%r)' % (new, t['id'], rt.source, rt.target, rt.internal, R(t['source']), R(t['target']),
                                             t['target'] is None), wit)
            return
    for n, s in ch['states'].items():
        o = sc_b.state_for(R(n))
        if getattr(o, 'initial', None) != R(s['initial']) or getattr(o, 'memory', None) != R(s['memory']) \
                or sc_b.parent_for(R(n)) != R(s['parent']) or o.name != R(n):
            acc.violation('C17:rename-structure', 'after renaming %r state %r has initial=%r memory=%r parent=%r' %
                          (new, R(n), getattr(o, 'initial', None), getattr(o, 'memory', None), sc_b.parent_for(R(n))), wit)
            return
    if sorted(sc_b.states) != sorted(R(n) for n in names):
        acc.violation('C17:rename-structure', 'state names after renaming: %r' % sc_b.states, wit)
        return
    script = gen_script(rnd, ch['events'], T['steps'])
    valseed, p_true = rnd.random(), rnd.choice((0.5, 0.8, 1.0))
    back = {v: k for k, v in new.items()}
    sides = []
    for sc, tm, ren in ((sc_a, tmap_a, None), (sc_b, tmap_b, back)):
        pr = Probes(val=make_val(valseed, p_true))
        it = Interpreter(sc, initial_context=pr.context())
        sides.append((pr, Runner(it, tm, ren=ren, log=pr.log)))
    if not lockstep(acc, 'C17:renamed-chart-behaves-differently', 'original vs chart with %r renamed' % new, sides, script, wit,
                    'rename_steps_compared'):
        return
    internal_on_renamed = any(t['target'] is None and t['source'] in new for t in ch['transitions'])
    if internal_on_renamed and n_ref:
        acc.nontrivial((chart_digest(ch), tuple(sorted(new))), cls='rename')
        acc.sample(dict(renamed=new, internal_on_renamed=True, initial_or_memory_refs=n_ref, states=len(names)))


def copy_case(acc, rnd, tier):
    T = TIERS[tier]
    ch = fixed_width(rnd, gen_guest(rnd, T))
    acc.count('copy_cases')
    partial = rnd.random() < 0.5
    groot = ch['root']
    sc_g, tmap_g = build.build_api(ch)          # reference guest (runs on its own)
    if partial:
        # the guest statechart given to copy_from_statechart wraps the chart: source is *not* its root
        acc.count('copy_partial_source')
        donor = Statechart('donor')
        donor.add_state(CompoundState('OUTER', initial=groot), None)
        donor.add_state(BasicState('OTHER'), 'OUTER')
        tmp, _ = build.build_api(ch)
        # rebuild under OUTER through the API
        for n in ch['order']:
            st = tmp.state_for(n)
            donor.add_state(st, ch['states'][n]['parent'] or 'OUTER')
        for t in tmp.transitions:
            donor.add_transition(t)
        donor.add_transition(Transition('OTHER', None, event='other'))
    else:
        donor, _ = build.build_api(ch)
    # one guest in seven declares the same transition twice (add_transition accepts it: the guest then raises NonDeterminismError
    # whenever that transition is enabled - and so must the host)
    twin = None
    if ch['transitions'] and rnd.random() < 0.15:
        twin = rnd.choice(ch['transitions'])['id']
        for scx, tmx in ((sc_g, tmap_g), (donor, None)):
            lab = (build.Coder().action(ch, next(t for t in ch['transitions'] if t['id'] == twin)) or '').strip()
            o = next(t for t in scx.transitions if (t.action or '').strip() == lab)
            c = Transition(o.source, o.target, event=o.event, guard=o.guard, action=o.action, priority=o.priority)
            c.preconditions.extend(o.preconditions)
            c.invariants.extend(o.invariants)
            c.postconditions.extend(o.postconditions)
            scx.add_transition(c)
            if tmx is not None:
                tmx[id(c)] = tmx[id(o)]
        acc.count('guests_with_a_transition_declared_twice')
    host = Statechart('host')
    host.add_state(CompoundState('HOST', initial='IDLE'), None)
    host.add_state(BasicState('IDLE'), 'HOST')
    # the placeholder may be of the very class of the state that replaces it (a compound state without children yet)
    same_class = ch['states'][groot]['kind'] == 'compound' and rnd.random() < 0.5
    host.add_state(CompoundState('SLOT') if same_class else BasicState('SLOT'), 'HOST')
    if same_class:
        acc.count('placeholders_of_the_class_of_the_copied_state')
    host.add_transition(Transition('IDLE', 'SLOT', event='enter'))
    # the host has its own transitions on the state that is going to be replaced (internal, self-loop, leaving): they stay, once each
    host_own = ['host:enter']
    if rnd.random() < 0.6:
        for ev, tgt in (('hostint', None), ('hostloop', 'SLOT'), ('leave', 'IDLE')):
            if rnd.random() < 0.7:
                host.add_transition(Transition('SLOT', tgt, event=ev))
                host_own.append('host:%s' % ev)
        acc.count('hosts_with_own_transitions_on_the_replaced_state')
    f = lambda n: 'G' + n       # noqa: E731   order-preserving among the guest's states
    wit = dict(chart=ch, partial=partial, twin=twin)
    order = {n: i for i, n in enumerate(ch['order'])}
    backward = any(t['target'] is not None and order[t['target']] <= order[t['source']] for t in ch['transitions'])
    if backward:
        acc.count('copy_with_backward_transition')
    from .c16 import view as _view
    donor_before = _view(donor)
    donor_codes = sorted((t.source, str(t.target), str(t.event), str(t.guard), str(t.action)) for t in donor.transitions)
    try:
        host.copy_from_statechart(donor, source=groot, replace='SLOT', renaming_func=f)
    except Exception as e:      # noqa
        acc.violation('C17:copy-raised', 'copy_from_statechart raised %s: %s' % (type(e).__name__, str(e)[:300]), wit)
        return
    try:
        donor_ok = (_view(donor) == donor_before and donor.validate() and donor_codes == sorted(
            (t.source, str(t.target), str(t.event), str(t.guard), str(t.action)) for t in donor.transitions))
    except Exception as e:      # noqa
        donor_ok = False
    if not donor_ok:
        acc.violation('C17:copy-modified-the-source-statechart', 'copy_from_statechart changed the statechart it copied from '
                      '(source=%r%s)' % (groot, ', below the donor root' if partial else ''), wit)
        return
    acc.count('donor_unchanged_checks')
    by_action = {(build.Coder().action(ch, t) or '').strip(): t['id'] for t in ch['transitions']}
    tmap_h = {}
    labels = []         # one per registered transition (the same object registered twice counts twice)
    for t in host.transitions:
        a = (t.action or '').strip()
        labels.append(by_action.get(a, 'host:%s' % t.event))
        if a in by_action:
            if by_action[a] in tmap_h.values() and by_action[a] != twin:
                acc.violation('C17:copy-duplicated-transition', 'transition %s of the guest appears more than once in the host'
                              % by_action[a], wit)
                return
            tmap_h[id(t)] = by_action[a]
        else:
            tmap_h[id(t)] = 'host:%s' % t.event
    if sorted(labels) != sorted([t['id'] for t in ch['transitions']] + host_own + ([twin] if twin else [])):
        acc.violation('C17:copy-lost-transition', 'host has transitions %r, guest has %r%s' %
                      (sorted(labels), sorted([t['id'] for t in ch['transitions']] + host_own + ([twin] if twin else [])),
                       ' (the guest declares %s twice: two registered transitions that compare equal)' % twin if twin else ''),
                      dict(wit, twin=twin))
        return
    back = {f(n): n for n in ch['order']}
    back['SLOT'] = groot
    script = [('queue', [('enter', 0, 0, {})]), ('step',)] + gen_script(rnd, ch['events'], T['steps'])
    valseed, p_true = rnd.random(), rnd.choice((0.5, 0.8, 1.0))
    pg = Probes(val=make_val(valseed, p_true))
    ig = Interpreter(sc_g, initial_context=pg.context())
    ph = Probes(val=make_val(valseed, p_true))
    ih = Interpreter(host, initial_context=ph.context())
    ih.execute_once()           # host initialisation: HOST, IDLE
    rg = Runner(ig, tmap_g, log=pg.log)

    class HostRunner(Runner):
        def apply(self, op, **kw):
            o = Runner.apply(self, op, **kw)
            if op[0] == 'step':
                # drop the host's own root from the configuration
                o = o[:2] + (tuple(s for s in o[2] if s != 'HOST'),) + o[3:]
                self.obs[-1] = o
            return o
    rh = HostRunner(ih, tmap_h, ren=back, log=ph.log)

    class GuestRunner(Runner):
        def apply(self, op, **kw):
            if op[0] == 'queue' and op[1][0][0] == 'enter':
                return None         # the guest never sees the host's event
            return Runner.apply(self, op, **kw)
    rg = GuestRunner(ig, tmap_g, log=pg.log)

    def first(og, oh):
        # guest: initial step enters root + defaults; host: IDLE -> SLOT then the same default entries
        if og[0] != 'step' or oh[0] != 'step':
            return 'guest %r host %r' % (og[:2], oh[:2])
        eg = [s for m in og[1][2] for s in m[2]]
        eh = [s for m in oh[1][2] for s in m[2]]
        if eg != eh:
            return 'guest entered %r, host entered %r' % (eg, eh)
        if og[2] != oh[2]:
            return 'configuration %r vs %r' % (og[2], oh[2])
        cg = [e for e in og[5] if e[0] in 'EXU']
        chh = [e for e in oh[5] if e[0] in 'EXU' and e[1] != 'IDLE']
        return None
    if not lockstep(acc, 'C17:copied-subchart-behaves-differently', 'guest alone vs guest plugged into host (renaming G+name%s)'
                    % (', source below donor root' if partial else ''), [(pg, rg), (ph, rh)], script, wit,
                    'copy_steps_compared', first_special=first):
        return
    has_internal = any(t['target'] is None for t in ch['transitions'])
    if has_internal and backward:
        acc.nontrivial((chart_digest(ch), partial), cls='copy')
        acc.sample(dict(states=len(ch['order']), partial=partial, backward=backward))
