"""C08 – contract checkpoints: trace grammar on the fault-free run + single-fault enumeration
(every condition occurrence made to fail in turn).  DESIGN §4 C08."""
from ..common import import_sismic
from ..gen import HKINDS, Tree, chart_digest, gen_chart
from ..lockstep import benign, Runner, gen_script
from ..probes import Probes, make_val
from .. import build

import_sismic()
from sismic.interpreter import Interpreter  # noqa: E402
from sismic.exceptions import (ContractError, InvariantError, PostconditionError,  # noqa: E402
                               PreconditionError)

PID = 'C08'
LEVEL = 'fault_enumeration'
RULE = ('One case = a generated chart whose states and transitions carry 0-3 pre/post/invariant conditions each, every '
        'condition being a probe K(id, time, __old__.v); (1) the fault-free run is checked against the documented trace '
        'grammar (pre just before entry code, post just after exit code, tpre/tinv before and tpost/tinv after the action, '
        'one invariant block per active state at the end of every step incl. empty ones, declaration order, once each, '
        '__old__.v = value at state entry / transition start); (2) the same inputs are re-run once per sampled/every '
        'condition occurrence with that occurrence returning False: execute_once must raise exactly Precondition/'
        'Postcondition/InvariantError carrying that state/transition object and that condition string, and the probe log '
        'must end at the failing occurrence.  Variants: a second live interpreter on the same Statechart one step behind, conditions '
        'calling active()/sent(), a text-collision scenario (same source text as code and as condition).  '
        '1 case in 10 each: an environment scenario (the application owns a context object and changes it between calls, code-less states and '
        'transitions, __old__ reached directly / through a generator expression / a lambda; every call evaluates the invariants of every '
        'active state) and an empty-context scenario; what sent(name) answers at the end of a step is compared with the MacroStep.  '
        'Non-trivial = distinct (chart, occurrence kind, position) injected.')
ASSUMPTIONS = ['order between the invariant blocks of different active states is not fixed by the statement and is canonicalised',
               'conditions are side-effect free apart from the probe']
KINDS = ['state.pre', 'state.post', 'state.inv', 'trans.pre', 'trans.inv_before', 'trans.post', 'trans.inv_after',
         'state.inv_on_none_step']
REQUIRED_COUNTERS = ['sent_predicate_readings_checked', 'environment_cases', 'old_readings_after_environment_change', 'empty_context_cases', 'runs_with_second_live_interpreter', 'text_collision_steps', 'grammar_steps_checked', 'faults_injected', 'old_values_checked'] + ['fault_' + k for k in KINDS]
TIERS = dict(quick=dict(steps=25, faults=25, gen=dict(max_states=10, max_depth=4, max_trans=12)),
             thorough=dict(steps=45, faults=400, gen=dict(max_states=16, max_depth=5, max_trans=20)))


def plan(tier):
    return dict(cases=1280 if tier == 'quick' else 6000, shards=16, timeout=900 if tier == 'quick' else 3600)


class Box:
    """A plain mutable (and hashable) object living in the context; code mutates it in place."""

    def __init__(self):
        self.n = 0

    def __repr__(self):
        return 'Box(n=%d)' % self.n


class Handle:
    """Stands for a resource object nested in a context container (driver, connection...): it must never be
    copied by the interpreter (only the *values* of the context are shallow-copied for __old__)."""

    def __init__(self):
        self.copied = 0

    def __copy__(self):
        self.copied += 1
        return self

    def __deepcopy__(self, memo):
        self.copied += 1
        return self

    def __repr__(self):
        return 'Handle(copied=%d)' % self.copied


class NoDeep:
    """A context value that can be shallow-copied (that is what __old__ does with the values of the context) but not
    deep-copied (it owns a lock, a socket...): nobody has a reason to deep-copy the context."""

    def __copy__(self):
        return self

    def __deepcopy__(self, memo):
        raise TypeError('this object cannot be deep-copied')


class VCoder(build.Coder):
    """Every executable fragment bumps an int (rebinding), a Box attribute and a list (both in place);
    conditions read all three through __old__."""

    def _bump(self, code):
        return code + '\nv = v + 1\nbox.n = box.n + 1\nlst.append(0)\n_p = _p + 1'

    def entry(self, ch, n):
        return self._bump(build.Coder.entry(self, ch, n))

    def exit(self, ch, n):
        return self._bump(build.Coder.exit(self, ch, n))

    def action(self, ch, t):
        return self._bump(build.Coder.action(self, ch, t))

    def cond(self, ch, owner_is_transition, cid, kind):
        import zlib
        h = zlib.crc32(cid.encode())
        # one condition in three also calls the documented active() predicate in the middle of the step
        act = ''
        if h % 3 == 0:
            act = ' and (active(%r) or True)' % ch['order'][(h // 3) % len(ch['order'])]
        if kind == 'pre':
            return 'K(%r, time, None)%s' % (cid, act)
        if kind == 'inv' and not owner_is_transition and h % 2 == 0:
            # sent(name): "an event with that name was sent during the current step" - impossible when no code ran
            act += ' and (not sent(%r) or W())' % ch['events'][h % len(ch['events'])]
        elif kind == 'inv' and not owner_is_transition:
            # what sent() answers at the end of a step is recorded and compared with the events listed in the MacroStep
            act += " and S(%r, sent('m0'), sent('m1'), sent(%r))" % (cid, ch['events'][h % len(ch['events'])])
        # (a variable whose name starts with an underscore is a variable like any other, also through __old__)
        return 'K(%r, time, (__old__.v, __old__.box.n, len(__old__.lst)))%s and __old__._p == __old__.v' % (cid, act)


CODER = VCoder()


def fresh(ch, valseed, p_true, cond_plan=None, ignore_contract=False):
    sc, tmap = build.build_api(ch, coder=CODER)
    pr = Probes(val=make_val(valseed, p_true))
    pr.cond_plan = cond_plan
    it = Interpreter(sc, initial_context=pr.context(v=0, box=Box(), lst=[], _p=0, res=NoDeep()), ignore_contract=ignore_contract)
    it.attach(pr.listener())        # somebody listens: nothing may be delivered after a failing condition either
    return sc, tmap, pr, it


def old3(x):
    return None if x is None else (x, x, x)


def owner_of(cid):
    return cid.rsplit('.', 1)[0]


def check_grammar(ch, tr, sc, tmap, step, log, config_after, vstate):
    """Return (None | message, occurrence descriptors).  ``vstate``: dict(v=int, entry={state: v}) carried across steps."""
    st = ch['states']
    tdict = {t['id']: t for t in ch['transitions']}
    exp = []      # tokens ('X', s) / ('E', s) / ('A', t) / ('K', cid, kindtag, expected_old)
    v = vstate['v']
    entry = vstate['entry']
    if step is not None:
        for ms in step.steps:
            for s in ms.exited_states:
                exp.append(('X', s))
                v += 1
                for cid in st[s]['contracts']['post']:
                    exp.append(('K', cid, 'state.post', old3(entry.get(s))))
            if ms.transition is not None:
                tid = tmap[id(ms.transition)]
                t = tdict[tid]
                v_t = v
                for cid in t['contracts']['pre']:
                    exp.append(('K', cid, 'trans.pre', None))
                for cid in t['contracts']['inv']:
                    exp.append(('K', cid, 'trans.inv_before', old3(v_t)))
                exp.append(('A', tid))
                v += 1
                for cid in t['contracts']['post']:
                    exp.append(('K', cid, 'trans.post', old3(v_t)))
                for cid in t['contracts']['inv']:
                    exp.append(('K', cid, 'trans.inv_after', old3(v_t)))
            for s in ms.entered_states:
                for cid in st[s]['contracts']['pre']:
                    exp.append(('K', cid, 'state.pre', None))
                entry[s] = v
                exp.append(('E', s))
                v += 1
    body = [e for e in log if e[0] in ('E', 'X', 'A', 'K')]
    n = len(exp)
    occ = []
    for i, want in enumerate(exp):
        if i >= len(body):
            return 'log ends early: expected %r' % (want,), occ
        got = body[i]
        if want[0] != got[0] or want[1] != got[1]:
            return 'position %d: expected %r, log has %r' % (i, want[:2], got[:2]), occ
        if want[0] == 'K':
            if want[3] != got[3] and want[2] not in ('state.pre', 'trans.pre'):
                return '__old__.v of %s is %r, value at state entry / transition start was %r' % (want[1], got[3], want[3]), occ
            occ.append((got[4], want[1], want[2]))
    tail = body[n:]
    # invariant blocks of the active states, any order between states
    blocks = []
    for e in tail:
        if e[0] != 'K':
            return 'code %r ran after the last micro step' % (e[:2],), occ
        o = owner_of(e[1])
        if blocks and blocks[-1][0] == o:
            blocks[-1][1].append(e)
        else:
            blocks.append((o, [e]))
    owners = [b[0] for b in blocks]
    want_owners = sorted(s for s in config_after if st[s]['contracts']['inv'])
    if sorted(owners) != want_owners:
        return 'end-of-step invariants evaluated for %r, active states with invariants are %r' % (owners, want_owners), occ
    kind = 'state.inv' if step is not None else 'state.inv_on_none_step'
    for o, es in blocks:
        if [e[1] for e in es] != st[o]['contracts']['inv']:
            return 'invariants of %s evaluated as %r, declared %r' % (o, [e[1] for e in es], st[o]['contracts']['inv']), occ
        for e in es:
            if e[3] != old3(entry.get(o)):
                return '__old__.v of %s is %r, value when %s was entered was %r' % (e[1], e[3], o, entry.get(o)), occ
            occ.append((e[4], e[1], kind))
    vstate['v'] = v
    return None, occ


def collision_case(acc, rnd):
    """The same source text used both as executable code and as a contract condition (legal: code fields are arbitrary
    strings): every use must keep its own meaning - a condition that is true must not raise, each use runs once."""
    from sismic.model import BasicState, CompoundState, Statechart, Transition
    calls = []

    def Z():
        calls.append('Z')
        return True

    def Y():
        calls.append('Y')
        return True
    texts = ['Z()', 'Y()']
    rnd.shuffle(texts)
    t1, t2 = texts
    sc = Statechart('collision')
    sc.add_state(CompoundState('root', initial='a'), None)
    a = BasicState('a', on_entry=t1 if rnd.random() < 0.7 else None, on_exit=t2 if rnd.random() < 0.5 else None)
    b = BasicState('b', on_entry=t2 if rnd.random() < 0.5 else None)
    if rnd.random() < 0.5:
        a.preconditions.append(t2)
    if rnd.random() < 0.7:
        a.invariants.append(t1)
    if rnd.random() < 0.7:
        b.invariants.append(t1)
    if rnd.random() < 0.5:
        b.preconditions.append(t1)
    sc.add_state(a, 'root')
    sc.add_state(b, 'root')
    tr = Transition('a', 'b', event='go', action=t1 if rnd.random() < 0.7 else t2, guard=t2 if rnd.random() < 0.3 else None)
    if rnd.random() < 0.8:
        tr.preconditions.append(t1)
    if rnd.random() < 0.5:
        tr.postconditions.append(t2)
    sc.add_transition(tr)
    sc.add_transition(Transition('b', 'a', event='back', action=t2))
    it = Interpreter(sc, initial_context=dict(Z=Z, Y=Y))
    acc.count('text_collision_cases')
    wit = dict(texts=[t1, t2], a=dict(entry=a.on_entry, exit=a.on_exit, pre=a.preconditions, inv=a.invariants),
               b=dict(entry=b.on_entry, pre=b.preconditions, inv=b.invariants),
               t=dict(action=tr.action, guard=tr.guard, pre=tr.preconditions, post=tr.postconditions))
    for ev in (None, 'go', 'back', 'go', 'back'):
        if ev:
            it.queue(ev)
        del calls[:]
        try:
            step = it.execute_once()
        except Exception as e:      # noqa
            acc.violation('C08:true-condition-raised', 'every condition calls a function that returns True, yet %s was raised: %s'
                          % (type(e).__name__, str(e)[:200].replace('\n', ' ')), dict(wit, event=ev))
            return
        # expected number of calls in this step
        want = 0
        if step is not None:
            for ms in step.steps:
                for s_ in ms.exited_states:
                    o = sc.state_for(s_)
                    want += (1 if getattr(o, 'on_exit', None) else 0) + len(o.postconditions)
                if ms.transition is not None:
                    t = ms.transition
                    want += len(t.preconditions) + 2 * len(t.invariants) + (1 if t.action else 0) + len(t.postconditions)
                for s_ in ms.entered_states:
                    o = sc.state_for(s_)
                    want += len(o.preconditions) + (1 if getattr(o, 'on_entry', None) else 0)
            if step.transitions and step.transitions[0].guard:
                want += 1
        want += sum(len(sc.state_for(n).invariants) for n in it.configuration)
        if len(calls) != want:
            acc.violation('C08:evaluation-count', 'step on %r: %d evaluations/executions of the shared texts, expected %d'
                          % (ev, len(calls), want), dict(wit, event=ev, calls=list(calls)))
            return
        acc.count('text_collision_steps')


def empty_context_case(acc, rnd):
    """A statechart without preamble, run without initial_context: the context is empty when the first states are entered,
    so their __old__ is an *empty* snapshot - which is not the same as no snapshot."""
    from sismic.model import BasicState, CompoundState, Statechart, Transition
    sc = Statechart('empty context')
    root = CompoundState('root', initial='a', on_entry='x = 1')
    root.invariants.append("not hasattr(__old__, 'x')")
    root.invariants.append("len(__old__) == 0")
    a = BasicState('a', on_entry='y = x + 1')
    a.invariants.append("'y' not in __old__ and __old__.x == 1")
    a.postconditions.append("'y' not in __old__")
    sc.add_state(root, None)
    sc.add_state(a, 'root')
    sc.add_state(BasicState('b'), 'root')
    t = Transition('a', 'b', event='go', action='z = 5')
    t.postconditions.append("'z' not in __old__ and __old__.y == 2")
    sc.add_transition(t)
    it = Interpreter(sc)
    acc.count('empty_context_cases')
    try:
        it.execute_once()
        for _ in range(rnd.randint(0, 2)):
            it.execute_once()
        it.queue('go')
        it.execute_once()
        it.execute_once()
    except Exception as e:      # noqa
        acc.violation('C08:true-condition-raised', 'conditions that hold (they look at what __old__ does not contain yet) raised %s: %s'
                      % (type(e).__name__, str(e)[:300].replace('\n', ' ')), dict(scenario='empty context'))
        return
    if it.context.get('z') != 5:
        acc.violation('C08:true-condition-raised', 'scenario did not run to its end', dict(context=dict(it.context)))


ENV_LOG = []


def K2(cid, old_n, cur_n):
    ENV_LOG.append((cid, old_n, cur_n))
    return True


OLD_FORMS = ('__old__.tank.n', 'next(__old__.tank.n for _ in (1,))', '(lambda: __old__.tank.n)()', '[__old__.tank.n for _ in (1,)][0]',
             'max(o.tank.n for o in [__old__])')


def env_case(acc, rnd):
    """The environment owns an object of the context (docs: an `initial_context` value shared with the application) and
    changes it between the calls; many states and transitions have no code at all.  What __old__ shows is the context
    as it was when the state was entered / the transition started - whoever changed it since, and however the condition
    gets at __old__ (directly, inside a generator expression, a comprehension, a lambda)."""
    from sismic.model import BasicState, CompoundState, Statechart, Transition
    del ENV_LOG[:]
    sc = Statechart('env')
    sc.add_state(CompoundState('root', initial='a'), None)
    names = ['a', 'b', 'c']

    def cond(cid):
        return 'K2(%r, %s, tank.n)' % (cid, rnd.choice(OLD_FORMS))
    for n in names:
        st = BasicState(n, on_entry=rnd.choice((None, None, 'w = 1')), on_exit=rnd.choice((None, None, 'w = 2')))
        for j in range(rnd.randint(0, 2)):
            st.invariants.append(cond('%s/inv%d' % (n, j)))
        if rnd.random() < 0.6:
            st.postconditions.append(cond('%s/post' % n))
        sc.add_state(st, 'root')
    tn = 0
    for n in names:
        for ev in ('e0', 'e1'):
            if rnd.random() < 0.75:
                t = Transition(n, rnd.choice(names + [None]), event=ev, action=rnd.choice((None, None, 'z = 1')))
                if rnd.random() < 0.5:
                    t.postconditions.append(cond('t%d/post' % tn))
                if rnd.random() < 0.4:
                    t.invariants.append(cond('t%d/tinv' % tn))
                tn += 1
                sc.add_transition(t)
    tank = Box()
    it = Interpreter(sc, initial_context=dict(tank=tank, K2=K2))
    T = 0
    entered_at = {}
    acc.count('environment_cases')
    history = []
    for i in range(rnd.randint(4, 12)):
        if rnd.random() < 0.6:
            T += rnd.randint(1, 3)
            tank.n = T              # the application changes its own object between two calls
            history.append(('tank.n', T))
        ev = rnd.choice(('e0', 'e1', None))
        if ev:
            it.queue(ev)
        history.append(('step', ev))
        del ENV_LOG[:]
        before = dict(entered_at)
        wit = dict(history=list(history), chart=[(n, sc.state_for(n).on_entry, sc.state_for(n).on_exit, list(sc.state_for(n).invariants),
                                                  list(sc.state_for(n).postconditions)) for n in names],
                   transitions=[(t.source, t.target, t.event, t.action, list(t.postconditions), list(t.invariants)) for t in sc.transitions])
        try:
            step = it.execute_once()
        except Exception as e:      # noqa
            acc.violation('C08:true-condition-raised', 'conditions that only record what __old__ shows raised %s: %s'
                          % (type(e).__name__, str(e)[:300].replace('\n', ' ')), wit)
            return
        if step is not None:
            for ms in step.steps:
                for s_ in ms.entered_states:
                    entered_at[s_] = T
        # at the end of every call - also one that did nothing, also when the clock has not moved - the invariants of every
        # active state are evaluated, once each
        got_inv = sorted(c for c, _o, _n in ENV_LOG if c.split('/')[1].startswith('inv'))
        want_inv = sorted('%s/inv%d' % (n, j) for n in it.configuration if n in names for j in range(len(sc.state_for(n).invariants)))
        acc.count('end_of_step_invariant_sets_checked')
        if got_inv != want_inv:
            acc.violation('C08:invariants-not-evaluated', 'call %d (%s): state invariants evaluated %r, the active states %r have %r'
                          % (i, 'returned a step' if step is not None else 'returned None', got_inv, list(it.configuration), want_inv), wit)
            return
        for cid, old_n, cur_n in ENV_LOG:
            owner, kind = cid.split('/')
            if kind.startswith('inv'):
                want = entered_at.get(owner)
            elif kind == 'post' and owner in names:
                want = before.get(owner)
            else:
                want = T            # a transition: started in this call
            acc.count('old_readings_after_environment_change' if want != T else 'old_readings_checked')
            if old_n != want or cur_n != T:
                acc.violation('C08:old-value-wrong', 'condition %s: __old__.tank.n is %r and tank.n is %r; the application had set '
                              'tank.n to %r when %s, and to %r now' % (cid, old_n, cur_n, want,
                                                                     'the transition started' if owner not in names else
                                                                     '%s was entered' % owner, T), wit)
                return


def run_case(acc, rnd, tier, case):
    if case % 10 == 9:
        return collision_case(acc, rnd)
    if case % 10 == 7:
        return env_case(acc, rnd)
    if case % 10 == 8:
        return empty_context_case(acc, rnd)
    T = TIERS[tier]
    ch = gen_chart(rnd, contracts=True, p_contract=rnd.choice((0.35, 0.5, 0.7)), mode=rnd.choice((None, 'orth', 'history')),
                   p_hist=0.3, **T['gen'])
    tr = Tree(ch)
    script = gen_script(rnd, ch['events'], T['steps'])
    valseed, p_true = rnd.random(), rnd.choice((0.5, 0.8, 1.0))
    dg = chart_digest(ch)
    wit = dict(chart=ch, script=script, p_true=p_true)
    # ---- (1) fault-free run against the grammar ----------------------------------------------------
    sc, tmap, pr, it = fresh(ch, valseed, p_true)
    r = Runner(it, tmap, log=pr.log)
    shadow = None
    if rnd.random() < 0.3:
        # a second live interpreter on the very same Statechart object, fed the same inputs one operation ahead, with
        # other values in its context: snapshots (__old__) belong to an interpreter, not to the statechart
        pr2 = Probes(val=make_val(valseed, p_true))
        it2 = Interpreter(sc, initial_context=pr2.context(v=5000, box=Box(), lst=[0] * 7, _p=5000))
        it2.context['box'].n = 5000
        shadow = Runner(it2, tmap, log=pr2.log)
        acc.count('runs_with_second_live_interpreter')
    backlog = []
    cfg = set()         # the configuration as the returned MacroSteps say it is (entered minus exited), kept by the harness
    vstate = dict(v=0, entry={})
    occs = []         # (occurrence index, cid, kindtag, step number)
    k = 0
    for op in script:
        if shadow is not None:
            # the second interpreter lags one macro step behind: it (re)enters states after the first one did
            backlog.append(op)
            if op[0] == 'step':
                steps_in_backlog = sum(1 for x in backlog if x[0] == 'step')
                while steps_in_backlog > 1 and not shadow.dead:
                    x = backlog.pop(0)
                    o2 = shadow.apply(x)
                    if x[0] == 'step':
                        steps_in_backlog -= 1
                        if o2[0] == 'raise':
                            shadow.dead = True
        if op[0] != 'step':
            r.apply(op)
            continue
        pr.stepno = k
        o = r.apply(op)
        if o[0] == 'raise':
            if isinstance(r.last_error, ContractError):
                acc.violation('C08:contract-error-without-fault', 'fault-free run raised %s at step %d' %
                              (type(r.last_error).__name__, k), wit)
                return
            if not benign(r.last_error):
                acc.violation('C08:unexpected-exception', 'fault-free run: step %d raised %s: %s (conditions and code of the generated '
                              'charts only call probes)' % (k, type(r.last_error).__name__, str(r.last_error)[:200].replace('\n', ' ')), wit)
                return
            break       # non-determinism etc.: not this property's business, the run stops here
        for ms in (r.last_step.steps if r.last_step is not None else []):
            cfg.difference_update(ms.exited_states)
            cfg.update(ms.entered_states)
        if set(it.configuration) != cfg:
            acc.violation('C08:trace-grammar', 'step %d: Interpreter.configuration says %r, the states entered and not exited according to '
                          'the MacroSteps returned so far are %r' % (k, sorted(it.configuration), sorted(cfg)), dict(wit, step=k))
            return
        msg, occ = check_grammar(ch, tr, sc, tmap, r.last_step, list(pr.log), sorted(cfg), vstate)
        acc.count('grammar_steps_checked')
        acc.count('old_values_checked', sum(1 for x in occ if x[2] not in ('state.pre', 'trans.pre')))
        if msg:
            acc.violation('C08:trace-grammar', 'step %d: %s' % (k, msg),
                          dict(wit, step=k, log=[e[:2] for e in pr.log if e[0] in 'EXAK'][:60], macro=str(r.last_step)))
            return
        if it.context.get('v') != vstate['v']:
            acc.violation('C08:trace-grammar', 'step %d: v=%r, fragments run=%r' % (k, it.context.get('v'), vstate['v']), wit)
            return
        sent_names = {e.name for e in r.last_step.sent_events} if r.last_step is not None else set()
        for e in pr.log:
            if e[0] == 'S':
                import zlib
                evn = ch['events'][zlib.crc32(e[1].encode()) % len(ch['events'])]
                want = ('m0' in sent_names, 'm1' in sent_names, evn in sent_names)
                acc.count('sent_predicate_readings_checked')
                if tuple(e[2:5]) != want:
                    acc.violation('C08:sent-predicate-wrong', "step %d: invariant %s read sent('m0'), sent('m1'), sent(%r) = %r; the "
                                  'MacroStep lists %r as sent (send and notify alike)' % (k, e[1], evn, tuple(e[2:5]), sorted(sent_names)),
                                  dict(wit, step=k))
                    return
        occs.extend((i, cid, kt, k) for (i, cid, kt) in occ)
        k += 1
    nsteps_ok = k
    if not occs:
        acc.count('cases_without_conditions')
        return
    # ---- (2) single-fault enumeration -----------------------------------------------------------------
    budget = T['faults']
    if len(occs) > budget:
        by_kind = {}
        for x in occs:
            by_kind.setdefault(x[2], []).append(x)
        chosen = [rnd.choice(v) for v in by_kind.values()]          # every kind present is hit
        rest = [x for x in occs if x not in chosen]
        chosen += rnd.sample(rest, max(0, budget - len(chosen)))
    else:
        chosen = occs
        acc.count('cases_all_occurrences_enumerated')
    want_cls = {'state.pre': PreconditionError, 'trans.pre': PreconditionError, 'state.post': PostconditionError,
                'trans.post': PostconditionError}
    for (idx, cid, kt, stepk) in sorted(chosen):
        sc, tmap, pr, it = fresh(ch, valseed, p_true, cond_plan=lambda c, i, idx=idx: i != idx)
        r = Runner(it, tmap, log=pr.log)
        kk = 0
        outcome = None
        for op in script:
            if op[0] != 'step':
                r.apply(op)
                continue
            pr.stepno = kk
            o = r.apply(op)
            if o[0] == 'raise':
                outcome = (kk, r.last_error)
                break
            kk += 1
            if kk >= nsteps_ok:
                break
        acc.count('faults_injected')
        acc.count('fault_' + kt)
        w = dict(wit, failing_occurrence=idx, condition=cid, kind=kt, expected_step=stepk)
        if outcome is None:
            acc.violation('C08:fault-not-raised', 'condition %s (%s) returned False in step %d but nothing was raised' %
                          (cid, kt, stepk), w)
            return
        kk, e = outcome
        cls = want_cls.get(kt, InvariantError)
        if type(e) is not cls:
            acc.violation('C08:wrong-error-class', 'failing %s (%s) raised %s, expected %s' % (cid, kt, type(e).__name__, cls.__name__), w)
            return
        if kk != stepk:
            acc.violation('C08:fault-step', 'failing %s raised in step %d, expected step %d' % (cid, kk, stepk), w)
            return
        last = pr.log[-1] if pr.log else None
        tail_after = [x for x in pr.log if x[0] in ('E', 'X', 'A', 'K', 'G', 'U', 'M')]
        if not last or last[0] != 'K' or last[4] != idx or tail_after[-1] is not last:
            acc.violation('C08:code-after-failure', 'after the failing occurrence %d (%s) more ran: %r' %
                          (idx, cid, [x[:2] for x in pr.log[-4:]]), w)
            return
        owner = owner_of(cid)
        if kt.startswith('state'):
            obj_ok = e.obj is sc.state_for(owner)
        else:
            obj_ok = e.obj is next(t for t in sc.transitions if tmap[id(t)] == owner)
        kind3 = 'pre' if '.pre' in kt else ('post' if '.post' in kt else 'inv')
        code = CODER.cond(ch, not kt.startswith('state'), cid, kind3)
        if not obj_ok:
            acc.violation('C08:wrong-obj', 'error for %s carries obj %r' % (cid, e.obj), w)
            return
        if e.condition != code:
            acc.violation('C08:wrong-condition', 'error for %s carries condition %r, expected %r' % (cid, e.condition, code), w)
            return
        acc.nontrivial((dg, kt, idx), cls=kt)
    acc.sample(dict(states=len(ch['states']), occurrences=len(occs), injected=len(chosen),
                    example=[(i, c, k2, s) for (i, c, k2, s) in sorted(chosen)[:6]]))
