"""C05 – see DESIGN.md §4 C05.  Workload mode 'queue' of the shared execution monitor (vf.execmon)."""
from .. import execmon, threaded
from ._exec_meta import META

MODE = 'queue'
PID = 'C05'
LEVEL = 'exploration'
RULE = META[PID]['rule']
ASSUMPTIONS = META[PID]['assumptions']
REQUIRED_COUNTERS = META[PID]['required'] + ['equal_events_cases', 'equal_internal_and_external_event_pending']


def plan(tier):
    return dict(cases=6000 if tier == "quick" else 60000, shards=16, timeout=600 if tier == 'quick' else 3000)


def equal_events_case(acc, rnd, pid='C05'):
    """Events without any distinguishing payload: an external event that compares equal (same name, same parameters, delay
    included) to an internal event the chart has sent, both pending at the same time.  They are two events in two queues; a tiny
    explicit model of the two queues says which one each step consumes."""
    from ..common import import_sismic
    import_sismic()
    from sismic.interpreter import Interpreter
    from sismic.model import BasicState, CompoundState, Event, InternalEvent, Statechart, Transition
    sc = Statechart('equal events')
    sc.add_state(CompoundState('root', initial='a'), None)
    sc.add_state(BasicState('a'), 'root')
    ticking = rnd.random() < 0.35       # a clock that grows at every reading: the time of a step is what Interpreter.time says afterwards
    d_int = rnd.choice((0.125, 0.125, 0.25, 0)) if ticking else rnd.choice((0, 1, 2, 2))
    sc.add_transition(Transition('a', None, event='go', action="send('tick', delay=%r)" % d_int if d_int else "send('tick')"))
    sc.add_transition(Transition('a', None, event='tick', action='n = n + 1'))
    from ..probes import ticking_clock
    it = Interpreter(sc, initial_context=dict(n=0), clock=ticking_clock() if ticking else None)
    if ticking:
        acc.count('equal_events_cases_on_a_ticking_clock')
    iq, eq = [], []         # model: lists of (due, seq, name) kept in (due, seq) order
    seq = [0]
    hist = []
    it.execute_once()
    now = it.time

    def put(q, due, name):
        seq[0] += 1
        q.append((due, seq[0], name))
        q.sort()
    for i in range(rnd.randint(6, 16)):
        r = rnd.random()
        if r < 0.3:
            it.queue('go')
            put(eq, now, 'go')
            hist.append(('queue go', now))
        elif r < 0.6:
            d = rnd.choice((d_int, d_int, 0, 0.125, 0.25) if ticking else (d_int, d_int, 0, 1, 2))
            form = rnd.random()
            if d and form < 0.5:
                it.queue('tick', delay=d)
            elif d:
                it.queue(Event('tick', delay=d))
            else:
                it.queue('tick')
            put(eq, now + d, 'tick')
            hist.append(('queue tick delay=%r' % d, now))
        if rnd.random() < (0.2 if ticking else 0.5):
            dt = rnd.choice((0.125, 0.25) if ticking else (1, 1, 2))
            it.clock.time += dt
            hist.append(('clock+=%r' % dt,))
        try:
            step = it.execute_once()
        except Exception as e:      # noqa
            acc.violation(pid + ':unexpected-exception', 'execute_once raised %s: %s' % (type(e).__name__, str(e)[:200]), dict(history=hist))
            return
        now = it.time
        want = None
        if iq and iq[0][0] <= now:
            want = ('InternalEvent',) + iq.pop(0)[2:]
        elif eq and eq[0][0] <= now:
            want = ('Event',) + eq.pop(0)[2:]
        got = None if step is None or step.event is None else (type(step.event).__name__, step.event.name)
        hist.append(('execute_once', now, got))
        if got != want:
            acc.violation(pid + ':consumed-event-differs', 'at time %r the step consumed %r; pending internal %r, external %r: expected %r'
                          % (now, got, [(x[0], x[2]) for x in iq], [(x[0], x[2]) for x in eq], want), dict(history=hist, internal_delay=d_int))
            return
        if want == ('Event', 'go'):
            put(iq, now + d_int, 'tick')
        if iq and eq and any(a[0] == b[0] and a[2] == b[2] for a in iq for b in eq):
            acc.count('equal_internal_and_external_event_pending')
    acc.count('equal_events_cases')


def run_case(acc, rnd, tier, case):
    if case % 12 == 11:
        return threaded.queue_vs_execute(acc, rnd, PID)
    if case % 12 == 5:
        return equal_events_case(acc, rnd)
    modes = META[PID]['modes']
    mode, _, kw = rnd.choices(modes, weights=[m[1] for m in modes])[0]
    acc.count('mode_' + mode)
    execmon.run_case(acc, rnd, tier, case, mode, PID, gen_kw=kw)
