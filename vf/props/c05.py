"""C05 – see DESIGN.md §4 C05.  Workload mode 'queue' of the shared execution monitor (vf.execmon)."""
from .. import execmon, threaded
from ._exec_meta import META

MODE = 'queue'
PID = 'C05'
LEVEL = 'exploration'
RULE = META[PID]['rule']
ASSUMPTIONS = META[PID]['assumptions']
REQUIRED_COUNTERS = META[PID]['required']


def plan(tier):
    return dict(cases=6000 if tier == "quick" else 60000, shards=16, timeout=600 if tier == 'quick' else 3000)


def run_case(acc, rnd, tier, case):
    if case % 12 == 11:
        return threaded.queue_vs_execute(acc, rnd, PID)
    modes = META[PID]['modes']
    mode, _, kw = rnd.choices(modes, weights=[m[1] for m in modes])[0]
    acc.count('mode_' + mode)
    execmon.run_case(acc, rnd, tier, case, mode, PID, gen_kw=kw)
