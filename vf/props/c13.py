"""C13 – time is frozen per step; after()/idle() mean what they say (DESIGN §4 C13).

Guards and contract conditions log the *actual* values of time, after(d), idle(d); a time-stamp model fed by the
observed entries/transitions recomputes every predicate exactly (dyadic times).  The clock is moved between steps
and *inside* steps (an action calls a harness callable that advances the clock)."""
from fractions import Fraction

from ..common import import_sismic
from ..gen import TIMED_D, Tree, chart_digest, gen_chart
from ..lockstep import Runner, gen_script
from ..probes import Probes, make_val
from .. import build

import_sismic()
from sismic.interpreter import Interpreter  # noqa: E402
from sismic.exceptions import ContractError  # noqa: E402

PID = 'C13'
LEVEL = 'exploration'
RULE = ('One case = generated chart whose guards and contract conditions are probes T(id, owner, time, after(d), idle(d\')) '
        'logging the actual predicate values, with d drawn from the set of possible clock gaps; the clock is advanced '
        'between steps and by action code in the middle of steps. After every step: MacroStep.time, Interpreter.time, the '
        "'step started' meta-event and the time seen by every code fragment / guard / condition must equal the clock value "
        'at the execute_once call; every logged after/idle value must equal (step time - t_entry(owner) >= d) / '
        '(step time - t_idle(owner) >= d) with the stamps reconstructed from the observed entries and fired transitions. '
        'Non-trivial = distinct (chart, step, predicate occurrence) evaluated exactly at the boundary gap == d, or in a step '
        'during which the clock was moved.  Clock variants: growing at every reading, epoch-sized values, exact rationals (Fraction).')
ASSUMPTIONS = ['idle() inside the post-conditions/invariants of the transition being fired is accepted with either reading '
               '(stamp before or after that firing) - the statement does not fix it',
               'dyadic clock values make float arithmetic exact (W10)']
REQUIRED_COUNTERS = ['cases_with_exact_rational_clock', 'idle_calls_checked', 'cases_with_ticking_clock', 'cases_with_epoch_sized_clock', 'selection_under_plain_time_guards_cases', 'steps_checked', 'predicates_checked', 'predicates_at_exact_boundary', 'steps_with_clock_moved_inside',
                     'time_reads_checked', 'idle_after_internal_transition', 'guard_predicates', 'contract_predicates',
                     'multi_transition_steps']
TIERS = dict(quick=dict(steps=40, gen=dict(max_states=10, max_depth=4, max_trans=14)),
             thorough=dict(steps=80, gen=dict(max_states=16, max_depth=5, max_trans=24)))


def plan(tier):
    return dict(cases=8000 if tier == "quick" else 80000, shards=16, timeout=900 if tier == 'quick' else 3600)


FRAC_D = (Fraction(0), Fraction(1, 10), Fraction(1, 10), Fraction(1, 5), Fraction(3, 10), Fraction(1, 2), Fraction(1), Fraction(7, 10))


class TCoder(build.Coder):
    def __init__(self, rnd, ch, frac=False):
        self.d = {}
        self.clk = {}
        self.gate = {}
        self.D = FRAC_D if frac else TIMED_D        # exact rationals when the clock shows exact rationals
        for t in ch['transitions']:
            self.d['g:' + t['id']] = (rnd.choice(self.D) if rnd.random() < 0.8 else None,
                                      rnd.choice(self.D) if rnd.random() < 0.7 else None)
            self.clk[t['id']] = rnd.choice((Fraction(1, 10), Fraction(1, 5)) if frac else (0.125, 0.5, 1, 2)) if rnd.random() < 0.25 else None
            self.gate[t['id']] = rnd.random() < 0.5
        self.rnd = rnd

    def dd(self, key):
        if key not in self.d:
            self.d[key] = (self.rnd.choice(self.D) if self.rnd.random() < 0.8 else None,
                           self.rnd.choice(self.D) if self.rnd.random() < 0.7 else None)
        return self.d[key]

    def guard(self, ch, t):
        da, di = self.d['g:' + t['id']]
        if da is None and di is None and not t['guard']:
            return None
        a = 'after(%r)' % da if da is not None else 'None'
        i = 'idle(%r)' % di if di is not None else 'None'
        g = 'T(%r, %r, time, %s, %s, %r)' % ('g:' + t['id'], t['source'], a, i, self.gate[t['id']])
        if t['guard']:
            g += ' and G(%r, event, time)' % t['id']
        return g

    def action(self, ch, t):
        code = build.Coder.action(self, ch, t)
        if self.clk[t['id']] is not None:
            code += '\nCLK(%r)' % self.clk[t['id']]
        return code

    def cond(self, ch, owner_is_transition, cid, kind):
        owner = cid.rsplit('.', 1)[0]
        if owner_is_transition:
            owner = next(t['source'] for t in ch['transitions'] if t['id'] == owner)
        if kind == 'pre':
            return 'T(%r, %r, time, None, None, False)' % ('c:' + cid, owner)
        da, di = self.dd('c:' + cid)
        a = 'after(%r)' % da if da is not None else 'None'
        i = 'idle(%r)' % di if di is not None else 'None'
        return 'T(%r, %r, time, %s, %s, False)' % ('c:' + cid, owner, a, i)


def run_case(acc, rnd, tier, case):
    if case % 4 == 3:
        from .. import execmon
        acc.count('selection_under_plain_time_guards_cases')
        execmon.run_case(acc, rnd, tier, case, 'timed', 'C13', gen_kw=dict(p_orth=0.45, timed_plain=0.8, p_guard=0.2, p_internal=0.3,
                                                                         p_eventless=0.3))
        return
    T = TIERS[tier]
    mode = rnd.choice((None, 'orth', 'orth', 'history'))
    ch = gen_chart(rnd, mode=mode, contracts=True, p_contract=0.35, p_internal=0.35, p_guard=0.4, p_eventless=0.2,
                   p_orth=0.4 if mode == 'orth' else 0.3, **T['gen'])
    tr = Tree(ch)
    tdict = {t['id']: t for t in ch['transitions']}
    frac = rnd.random() < 0.12      # a clock that shows exact rationals (a legal Clock): times are what the clock shows
    coder = TCoder(rnd, ch, frac=frac)
    sc, tmap = build.build_api(ch, coder=coder)
    script = gen_script(rnd, ch['events'], T['steps'], p_clock=0.6, p_queue=0.6)
    pr = Probes(val=make_val(rnd.random(), rnd.choice((0.6, 0.9, 1.0))))
    log = pr.log
    clock_moves = []

    def Tprobe(pid, owner, tm, a, i, gate):
        log.append(('T', pid, owner, tm, a, i))
        if gate:
            return (a is None or a) and (i is None or i)
        return True

    it = None

    def CLK(dt):
        if ticking:
            it.clock.time = it.clock._now + dt
        else:
            it.clock.time += dt
        clock_moves.append(dt)
        log.append(('C', dt))
    ticking = rnd.random() < 0.25 and not frac
    clock = None
    if ticking:
        from sismic.clock import Clock

        class TickingClock(Clock):
            """A legitimate clock whose value grows with every reading (like UtcClock or a started SimulatedClock)."""

            def __init__(self):
                self._now = 0.0

            @property
            def time(self):
                self._now += 0.125
                return self._now

            @time.setter
            def time(self, v):
                self._now = v
        clock = TickingClock()
        acc.count('cases_with_ticking_clock')
    elif frac:
        from sismic.clock import SimulatedClock
        clock = SimulatedClock()
        clock.time = Fraction(0)
        acc.count('cases_with_exact_rational_clock')
    elif rnd.random() < 0.2:
        # epoch-sized times (what UtcClock shows): the predicates are about *elapsed* time, whatever the magnitude of the clock
        from sismic.clock import SimulatedClock
        clock = SimulatedClock()
        clock.time = rnd.choice((1.7e9, 2.0 ** 31, 1.0e6 + 0.5))
        acc.count('cases_with_epoch_sized_clock')
    it = Interpreter(sc, initial_context=pr.context(T=Tprobe, CLK=CLK, Fraction=Fraction), clock=clock)
    it.attach(pr.listener())
    it.attach(lambda m: log.append(('IT', m.name, it.time)))       # what Interpreter.time shows while a meta-event is delivered
    r = Runner(it, tmap, log=log)
    t_entry, t_idle = {}, {}
    dg = chart_digest(ch)
    wit = dict(chart=ch, script=script, d=coder.d, clk=coder.clk)
    k = 0
    last_time = it.time
    for op in script:
        if op[0] != 'step':
            if ticking and op[0] == 'clock':
                it.clock.time = it.clock._now + op[1]
            elif frac and op[0] == 'clock':
                it.clock.time += Fraction(str(op[1])) * Fraction(2, 5)
            else:
                r.apply(op)
                if not ticking and not frac and rnd.random() < 0.06:
                    # the interpreter is given another clock object (public attribute): the time of the last step stays what it was
                    from sismic.clock import SimulatedClock as _SC
                    nc = _SC()
                    nc.time = it.clock.time + rnd.choice((0, 0.5, 2))
                    it.clock = nc
                    acc.count('clock_objects_replaced_between_steps')
            acc.count('time_reads_checked')
            if it.time != last_time:
                acc.violation('C13:interpreter-time-moved-between-steps', 'Interpreter.time changed from %r to %r by %s'
                              % (last_time, it.time, op[0]), dict(wit, step=k))
                return
            continue
        pr.stepno = k
        del clock_moves[:]
        t0 = None if ticking else it.clock.time
        o = r.apply(op)
        if ticking:
            # the value sampled at the call is not known from outside: everything observed in the step must agree with
            # Interpreter.time after the call
            t0 = it.time
        if o[0] == 'raise':
            if isinstance(r.last_error, ContractError):
                acc.violation('C13:contract-error', 'always-true conditions raised %s' % type(r.last_error).__name__, dict(wit, step=k))
                return
            if type(r.last_error).__name__ == 'CodeEvaluationError':
                # guards and conditions of the generated charts only call the probes and after()/idle(): nothing there may raise
                acc.violation('C13:time-predicate-raised', 'step %d: %s' % (k, str(r.last_error)[:300].replace('\n', ' ')), dict(wit, step=k))
                return
            break
        step = r.last_step
        last_time = it.time
        if it.time != t0 or (step is not None and step.time != t0):
            acc.violation('C13:step-time', 'step %d: clock was %r at the call, Interpreter.time=%r MacroStep.time=%r' %
                          (k, t0, it.time, getattr(step, 'time', None)), dict(wit, step=k))
            return
        moved = bool(clock_moves)
        if moved:
            acc.count('steps_with_clock_moved_inside')
        if step is not None and len(step.transitions) >= 2:
            acc.count('multi_transition_steps')
        pending = None       # (transition id, source) whose idle stamp is being updated
        for e in list(log):
            kind = e[0]
            if kind == 'M':
                if e[1] == 'step started':
                    acc.count('time_reads_checked')
                    if e[2].get('time') != t0:
                        acc.violation('C13:step-started-time', "step %d: 'step started' carries time %r, clock was %r"
                                      % (k, e[2].get('time'), t0), dict(wit, step=k))
                        return
                continue
            if kind == 'IT':
                acc.count('time_reads_checked')
                if e[2] != t0:
                    acc.violation('C13:interpreter-time-during-step', "step %d started at %r: Interpreter.time showed %r while '%s' "
                                  'was being delivered' % (k, t0, e[2], e[1]), dict(wit, step=k))
                    return
                continue
            if kind in ('U', 'C', 'K'):
                continue
            tm = e[3] if kind in ('A', 'G', 'T') else e[2]
            acc.count('time_reads_checked')
            if tm != t0:
                acc.violation('C13:time-not-frozen', 'step %d started at %r: %s of %s saw time %r%s' %
                              (k, t0, {'E': 'entry code', 'X': 'exit code', 'A': 'action', 'G': 'guard', 'T': 'predicate probe'}[kind],
                               e[1], tm, ' (clock moved inside the step)' if moved else ''), dict(wit, step=k))
                return
            in_own_contract = False
            if kind == 'T' and pending is not None and e[1].startswith('c:' + pending[0] + '.'):
                in_own_contract = True
            elif pending is not None:
                t_idle[pending[1]] = t0
                pending = None
            if kind == 'E':
                t_entry[e[1]] = t0
                t_idle[e[1]] = t0
            elif kind == 'A':
                pending = (e[1], tdict[e[1]]['source'])
                if tdict[e[1]]['target'] is None:
                    acc.count('internal_transitions_fired')
            elif kind == 'T':
                pid, owner, a, i = e[1], e[2], e[4], e[5]
                da, di = coder.d.get(pid, (None, None))
                if a is None and i is None:
                    continue
                if owner not in t_entry:
                    acc.violation('C13:predicate-on-never-entered-state', '%s evaluated for %s which was never entered'
                                  % (pid, owner), dict(wit, step=k))
                    return
                acc.count('predicates_checked')
                acc.count('guard_predicates' if pid.startswith('g:') else 'contract_predicates')
                boundary = False
                if a is not None:
                    want = (t0 - t_entry[owner]) >= da
                    boundary |= (t0 - t_entry[owner]) == da and da > 0
                    if a != want:
                        acc.violation('C13:after-wrong', 'step %d at %r: after(%r) in %s is %r; %s was entered at %r'
                                      % (k, t0, da, pid, a, owner, t_entry[owner]), dict(wit, step=k))
                        return
                if i is not None:
                    want = (t0 - t_idle[owner]) >= di
                    alt = (t0 - t0) >= di if in_own_contract else want
                    boundary |= (t0 - t_idle[owner]) == di and di > 0
                    if t_idle[owner] != t_entry[owner]:
                        acc.count('idle_after_internal_transition')
                    if i != want and i != alt:
                        acc.violation('C13:idle-wrong', 'step %d at %r: idle(%r) in %s is %r; %s was entered at %r and last '
                                      'fired a transition at %r' % (k, t0, di, pid, i, owner, t_entry[owner], t_idle[owner]),
                                      dict(wit, step=k))
                        return
                if boundary:
                    acc.count('predicates_at_exact_boundary')
                    acc.nontrivial((dg, k, pid), cls='exact_boundary')
                elif moved:
                    acc.nontrivial((dg, k, pid), cls='clock_moved_inside_step')
        if pending is not None:
            t_idle[pending[1]] = t0
        # time predicates flip without any step: the invariants of the active states are evaluated at the end of every
        # call of execute_once, also when nothing else happened
        seen = {e[1] for e in log if e[0] == 'T'}
        for n in it.configuration:
            for cid in ch['states'][n]['contracts']['inv']:
                if 'c:' + cid not in seen:
                    acc.violation('C13:invariant-not-evaluated', 'step %d (%s): invariant %s of active state %s was not evaluated'
                                  % (k, 'nothing happened' if step is None else 'a macro step', cid, n), dict(wit, step=k))
                    return
        if step is None:
            acc.count('idle_calls_checked')
        acc.count('steps_checked')
        k += 1
    acc.sample(dict(states=len(ch['states']), steps=k, d_values=dict(list(coder.d.items())[:6]),
                    stamps=dict(list(t_entry.items())[:5])), limit=2)
