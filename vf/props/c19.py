"""C19 – BDD verdicts are sound (DESIGN §4 C19): end-to-end differential against a plain interpreter.

A child process runs execute_bdd (behave, JSON formatter) on a generated feature file; the parent executes every
scenario on a plain Interpreter exactly as documented and evaluates each 'then' fact itself from the MacroSteps /
configuration / context.  Statuses must be: passed up to the first false fact, that one failed, the rest skipped."""
import json
import os
import re
import shutil
import subprocess
import tempfile

from ..common import PYTHON, REPO, VERIF_DIR, import_sismic
from ..gen import Tree, gen_chart
from .. import build

import_sismic()
from sismic.interpreter import Interpreter  # noqa: E402
from sismic.io import import_from_yaml  # noqa: E402
from sismic.model import InternalEvent, MacroStep, MicroStep, Event, MetaEvent, Transition  # noqa: E402
from sismic import testing  # noqa: E402

PID = 'C19'
LEVEL = 'exploration'
RULE = ('One case = one generated executable statechart (real Python code: counters, strings, sends with parameters incl. the same '
        'event twice in one step, after() guards) + one feature file of 30 generated scenarios using every predefined given/when/'
        'then step in the documented spelling (parameters via "with p=v" and via tables, repeat, reproduce, wait, do nothing, '
        'several when/then blocks incl. blocks that produce no macro step); about half of the assertions are false. The child '
        'process runs execute_bdd; the parent re-executes on a plain Interpreter and computes each fact. Also: sismic.testing '
        'predicates vs a direct reading of random MacroStep lists. Non-trivial = distinct (then-kind, truth value) pairs; all 17 '
        'kinds x {true,false} must occur.  Also: two feature files with equally named scenarios in one run, list literals as parameters '
        'that the chart keeps and mutates, a when step of 300-2500 macro steps.')
ASSUMPTIONS = ['not judged: then-steps naming a state that does not exist, map_action/map_assertion, notify-events counted as fired',
               'behave 1.3.3 as installed; statuses read from its JSON formatter']
THEN_KINDS = ['state entered', 'state not entered', 'state exited', 'state not exited', 'state active', 'state not active',
              'event fired', 'event fired with', 'event fired table', 'event not fired', 'no event fired', 'variable equals',
              'variable not equal', 'expression holds', 'expression not hold', 'final', 'not final']
REQUIRED_COUNTERS = ['inline_and_table_parameters', 'mapped_step_scenarios', 'table_reproduce_scenarios', 'long_step_scenarios', 'runs_with_two_feature_files', 'mutable_literal_parameters', 'cross_event_parameter_mix', 'features_with_background', 'given_step_after_when', 'feature_files', 'scenarios', 'then_steps_checked', 'given_when_steps_checked', 'testing_predicate_checks',
                     'blocks_without_macro_step', 'same_event_twice_in_step'] + \
    ['then_%s_%s' % (k.replace(' ', '_'), v) for k in THEN_KINDS for v in ('true', 'false')]


def plan(tier):
    return dict(cases=96 if tier == 'quick' else 960, shards=16, timeout=900 if tier == 'quick' else 3600)


class RealCoder(build.Coder):
    """Real (probe-free) Python code: execute_bdd builds its own interpreter in the child process."""

    def entry(self, ch, n):
        lines = ['s = %r' % n, 'entries = entries + 1']
        for s in ch['states'][n]['sends_entry']:
            lines.append('send(%r, v=x)' % s['name'])
        return '\n'.join(lines)

    def exit(self, ch, n):
        return 'exits = exits + 1'

    def action(self, ch, t):
        lines = ['x = x + 1 + event.data.get("p", 0)' if t['event'] else 'x = x + 1']
        if t['event']:
            # a parameter that is a list is kept and changed in place: the chart owns what it was sent
            lines += ['if "q" in event.data:', '    bag = event.q', '    bag.append(len(bag))']
        for s in t['sends']:
            if s['kind'] == 'send':
                lines.append('send(%r, v=x, w=%r)' % (s['name'], t['id']))
                if s.get('twice'):
                    lines.append('send(%r, v=x + 1, w=%r)' % (s['name'], t['id']))
        return '\n'.join(lines)

    def guard(self, ch, t):
        if t['event'] is None:
            return 'after(%r)' % t['after']
        if t['guard']:
            return 'x %% %d == %d' % (t['gmod'], t['grem'])
        return None


def make_chart(rnd):
    for _ in range(100):
        ch = gen_chart(rnd, max_states=9, max_depth=3, max_trans=10, p_eventless=0.2, p_internal=0.2, p_final=0.35, p_hist=0.2,
                       p_send=0.6, p_notify=0.0, p_state_send=0.15, mode=rnd.choice((None, 'orth')), n_events=3, p_guard=0.35)
        tr = Tree(ch)
        outs = ['out0', 'out1', 'out2']
        for t in ch['transitions']:
            t['gmod'] = rnd.choice((2, 3))
            t['grem'] = rnd.randrange(t['gmod'])
            t['after'] = rnd.choice((1, 2, 5))
            if t['event'] is None and t['target'] is None:
                t['event'] = rnd.choice(ch['events'])       # eventless transitions are external and guarded by after()
            for s in t['sends']:
                s['kind'] = 'send'
                s['name'] = rnd.choice(outs)
                s['delay'] = 0
                s['twice'] = rnd.random() < 0.4
            t['priority'] = 0 if t['event'] is None else t['priority']
        for n, s in ch['states'].items():
            for lst in (s['sends_entry'], s['sends_exit']):
                for x in lst:
                    x['kind'] = 'send'
                    x['name'] = rnd.choice(outs)
                    x['delay'] = 0
            s['sends_exit'] = []
        # an out-event that triggers something (internal events are consumed by the chart itself)
        srcs = [n for n in ch['order'] if ch['states'][n]['kind'] in ('basic', 'compound', 'orthogonal')]
        ch['transitions'].append(dict(id='t%d' % len(ch['transitions']), source=rnd.choice(srcs), target=None, event='out0',
                                      guard=False, gmod=2, grem=0, after=1, priority=0, sends=[],
                                      contracts=dict(pre=[], post=[], inv=[]), tguard=None))
        root = ch['root']
        if ch['states'][root]['kind'] == 'compound' and rnd.random() < 0.8:
            # a way to reach a final configuration: root --finish--> final child of the root
            fin = next((c for c in ch['states'][root]['children'] if ch['states'][c]['kind'] == 'final'), None)
            if fin is None:
                fin = 'zfin'
                ch['states'][fin] = dict(kind='final', parent=root, children=[], initial=None, memory=None, sends_entry=[],
                                         sends_exit=[], contracts=dict(pre=[], post=[], inv=[]))
                ch['states'][root]['children'].append(fin)
                ch['order'].append(fin)
            ch['transitions'].append(dict(id='t%d' % len(ch['transitions']), source=root, target=fin, event='finish', guard=False,
                                          gmod=2, grem=0, after=1, priority=0, sends=[], contracts=dict(pre=[], post=[], inv=[]),
                                          tguard=None))
            ch['events'] = ch['events'] + ['finish']
        # (abs: a variable of the chart that happens to have the name of a builtin - expected values are plain Python expressions)
        ch['preamble'] = 'x = 0\ns = ""\nentries = 0\nexits = 0\nbag = []\nabs = 1'
        ch['outs'] = outs
        # same-source eventless transitions would be non-deterministic: keep at most one per state
        seen = set()
        keep = []
        for t in ch['transitions']:
            if (t['source'], t['event']) in seen:
                continue
            seen.add((t['source'], t['event']))
            keep.append(t)
        ch['transitions'] = keep
        return ch
    raise AssertionError


def gen_scenario(rnd, ch, idx, earlier, orc):
    """Scenario generated while a plain interpreter executes it, so that the arguments of the assertions can be chosen to
    make about half of them true (the verdict itself is recomputed later by a fresh Oracle run)."""
    states = list(ch['order'])
    evs = ch['events'] + ['noise']
    outs = ch['outs'] + ['nothing']
    steps = []      # (keyword, text, table[, kind])
    orc.start()

    def action(kw):
        r = rnd.random()
        ev = rnd.choice(evs)
        if r < 0.4:
            return (kw, 'I send event %s' % ev, None)
        if r < 0.5:
            return (kw, 'I send event %s with p=%d' % (ev, rnd.randint(0, 3)), None)
        if r < 0.54:
            return (kw, 'I send event %s' % ev, [('p', str(rnd.randint(0, 3)))])
        if r < 0.58:
            # both forms in one step: one parameter inline, another one in the table
            orc.acc.count('inline_and_table_parameters')
            return (kw, 'I send event %s with p=%d' % (ev, rnd.randint(1, 3)), [('q', rnd.choice(('[1, 2]', '[]', '[0]')))])
        if r < 0.66:
            orc.acc.count('mutable_literal_parameters')
            special = rnd.random() < 0.4
            lit = rnd.choice(("['a|b']", "['x|', '|']", "['a\\\\b']", "['\\\\|']") if special else ('[1, 2]', '[1, 2]', '[]', '[0]'))
            # (the same literal text comes back in later steps and scenarios; cells with pipes / backslashes travel through tables)
            if rnd.random() < (0.3 if special else 0.5):
                return (kw, 'I send event %s with q=%s' % (ev, lit), None)
            return (kw, 'I send event %s' % ev, [('q', lit)])
        if r < 0.72:
            return (kw, 'I wait %s seconds' % rnd.choice(['1', '2.5', '5', '6']), None)
        if r < 0.76:
            return (kw, 'I wait 1 second', None)
        if r < 0.80:
            return (kw, 'I repeat "I send event %s" %d times' % (ev, rnd.randint(1, 3)), None)
        if r < 0.9 and earlier:
            return (kw, 'I reproduce "%s"' % rnd.choice(earlier), None)
        return (kw, 'I do nothing', None)

    def add(st):
        steps.append(st)
        orc.do_step(st[0], st[1], st[2])

    def add_count(name):
        orc.acc.count(name)
    for _ in range(rnd.randint(0, 2)):
        add(action('given'))
    for blk in range(rnd.randint(1, 3)):
        if blk > 0 and rnd.random() < 0.45:
            add(('when', rnd.choice(['I do nothing', 'I send event noise', 'I wait 1 second']), None))
        else:
            for _ in range(rnd.randint(1, 3)):
                add(action('when'))
        if rnd.random() < 0.2:
            add(action('given'))        # legal, if unusual: a given step between the when steps and the assertions
            add_count('given_step_after_when')
        orc.monitoring = False
        it, mon = orc.it, orc.mon
        ent = [x for m_ in mon for x in m_.entered_states]
        exi = [x for m_ in mon for x in m_.exited_states]
        sent = [e for m_ in mon for e in m_.sent_events]
        for _ in range(rnd.randint(1, 4)):
            want = rnd.random() < 0.72          # later assertions are skipped after a false one: bias towards true

            def pick(pool_true, pool_false):
                pool = pool_true if want else pool_false
                return rnd.choice(pool) if pool else rnd.choice(pool_true + pool_false)
            kind = rnd.choice(THEN_KINDS)
            table = None
            cfg = it.configuration
            if kind in ('state entered', 'state not entered'):
                pos = kind == 'state entered'
                text = 'state %s is %s' % (pick([x for x in states if (x in ent) == pos], [x for x in states if (x in ent) != pos]), kind[6:])
            elif kind in ('state exited', 'state not exited'):
                pos = kind == 'state exited'
                text = 'state %s is %s' % (pick([x for x in states if (x in exi) == pos], [x for x in states if (x in exi) != pos]), kind[6:])
            elif kind in ('state active', 'state not active'):
                pos = kind == 'state active'
                text = 'state %s is %s' % (pick([x for x in states if (x in cfg) == pos], [x for x in states if (x in cfg) != pos]), kind[6:])
            elif kind in ('event fired', 'event not fired'):
                pos = kind == 'event fired'
                names = {e.name for e in sent}
                text = 'event %s is %sfired' % (pick([x for x in outs if (x in names) == pos], [x for x in outs if (x in names) != pos]),
                                                '' if pos else 'not ')
            elif kind in ('event fired with', 'event fired table'):
                real = [(e.name, e.data.get('v'), e.data.get('w')) for e in sent if 'v' in e.data]
                mixes = [(a[0], a[1], b[2]) for a in real for b in real if a[0] == b[0] and (a[0], a[1], b[2]) not in real]
                if want and real:
                    n_, v_, w_ = rnd.choice(real)
                elif mixes and rnd.random() < 0.7:
                    n_, v_, w_ = rnd.choice(mixes)      # v of one fired event with w of another one: no single event matches
                    add_count('cross_event_parameter_mix')
                else:
                    n_, v_, w_ = rnd.choice(outs), rnd.randint(0, 6), 't0'
                if kind == 'event fired with':
                    text = 'event %s is fired with v=%d' % (n_, v_)
                else:
                    text = 'event %s is fired' % n_
                    table = [('v', str(v_))]
                    if rnd.random() < 0.6:
                        table.append(('w', repr(w_)))
            elif kind == 'no event fired':
                text = 'no event is fired'
            elif kind in ('variable equals', 'variable not equal'):
                var = rnd.choice(['x', 'x', 'entries', 'exits', 'undefined_var', 'bag', 'bag'])
                if var == 'bag':
                    cur = list(it.context.get('bag', []))
                    val = cur if (want == (kind == 'variable equals')) else (cur + [len(cur)] if rnd.random() < 0.5 or not cur else cur[:-1])
                    text = 'variable bag %s %r' % ('equals' if kind == 'variable equals' else 'does not equal', val)
                else:
                    cur = it.context.get(var, 0)
                    val = cur if (want == (kind == 'variable equals')) else cur + rnd.choice((1, 2, -1))
                    text = 'variable %s %s %d' % (var, 'equals' if kind == 'variable equals' else 'does not equal', max(val, 0))
                    if rnd.random() < 0.2:
                        text = 'variable %s %s abs(-%d)' % (var, 'equals' if kind == 'variable equals' else 'does not equal', max(val, 0))
                        add_count('expected_values_using_a_builtin')
            elif kind in ('expression holds', 'expression not hold'):
                x = it.context.get('x', 0)
                pos = (kind == 'expression holds') == want
                act_states = [q for q in states if (q in cfg) == pos]
                expr = rnd.choice(['x > %d' % (x - 1 if pos else x), 's == %r' % (it.context.get('s') if pos else 'nope'),
                                   'x == %d and entries >= 1' % (x if pos else x + 1), 'exits %s 0' % ('>=' if pos else '<'),
                                   # the documented evaluator also exposes active() and time to the expression
                                   'active(%r)' % rnd.choice(act_states) if act_states else 'x >= 0' if pos else 'x < 0',
                                   'time %s %r' % ('==' if pos else '<', it.time)])
                text = 'expression "%s" %s' % (expr, 'holds' if kind == 'expression holds' else 'does not hold')
            elif kind == 'final':
                text = 'statechart is in a final configuration'
            else:
                text = 'statechart is not in a final configuration'
            steps.append(('then', text, table, kind))
            if not orc.fact(text, table):
                return steps        # behave skips everything after a failed step: stop the scenario here
    return steps


def feature_text(name, scenarios, background=()):
    lines = ['Feature: %s' % name]
    if background:
        lines.append('')
        lines.append('  Background:')
        for st in background:
            lines.append('    Given %s' % st[1])
    for sname, steps in scenarios:
        lines.append('')
        lines.append('  Scenario: %s' % sname)
        for st in steps:
            lines.append('    %s %s' % (st[0].capitalize(), st[1]))
            if st[2]:
                lines.append('      | parameter | value |')
                for p, v in st[2]:
                    lines.append('      | %s | %s |' % (p, v.replace('|', '\\|')))        # (a pipe inside a cell is written \|)
    return '\n'.join(lines) + '\n'


class Oracle:
    """Plain-interpreter execution of a scenario, exactly as documented."""

    def __init__(self, yaml_text, scenarios, acc, background=()):
        self.yaml_text, self.scenarios, self.acc, self.background = yaml_text, dict(scenarios), acc, list(background)

    def start(self):
        self.it = Interpreter(import_from_yaml(self.yaml_text))
        self.mon = None
        self.monitoring = False
        for st in self.background:          # behave runs the Background steps before the steps of every scenario
            self.do_step('given', st[1], st[2])

    def run(self, steps):
        self.start()
        out = []
        for st in steps:
            kw, text, table = st[0], st[1], st[2]
            if kw in ('given', 'when'):
                self.do_step(kw, text, table)
                out.append(True)
            else:
                self.monitoring = False
                out.append(self.fact(text, table))
        return out

    def after_step(self, kw):
        ms = self.it.execute()
        if kw == 'when':
            if not self.monitoring:
                self.monitoring = True
                self.mon = []
                self.fresh_block = True
            self.mon.extend(ms)
        return ms

    def do_step(self, kw, text, table):
        it = self.it
        m = re.match(r'I repeat "(.*)" (\d+) times$', text)
        if m:
            for _ in range(int(m.group(2))):
                self.do_step(kw, m.group(1), None)
            self.after_step(kw)
            return
        m = re.match(r'I reproduce "(.*)"$', text)
        if m:
            for st in self.scenarios[m.group(1)]:
                if st[0] in ('given', 'when'):
                    self.do_step(kw, st[1], st[2])
            self.after_step(kw)
            return
        m = re.match(r'I send event (\w+) with (\w+)=(.*)$', text)
        if m:
            params = {p: eval(v) for p, v in (table or [])}
            params[m.group(2)] = eval(m.group(3))
            it.queue(m.group(1), **params)
        elif re.match(r'I send event (\w+)$', text):
            params = {p: eval(v) for p, v in (table or [])}
            it.queue(text.split()[-1], **params)
        elif re.match(r'I wait (\S+) seconds?$', text):
            it.clock.time += float(text.split()[2])
        elif text == 'I do nothing':
            pass
        else:
            raise ValueError(text)
        ms = self.after_step(kw)
        if kw == 'when' and not ms:
            self.acc.count('when_steps_without_macro_step')

    def fact(self, text, table):
        it, mon = self.it, self.mon or []
        ent = [s for m_ in mon for s in m_.entered_states]
        exi = [s for m_ in mon for s in m_.exited_states]
        sent = [e for m_ in mon for e in m_.sent_events]
        if not mon:
            self.acc.count('blocks_without_macro_step')
        m = re.match(r'state (\w+) is (not )?(entered|exited|active)$', text)
        if m:
            v = {'entered': m.group(1) in ent, 'exited': m.group(1) in exi, 'active': m.group(1) in it.configuration}[m.group(3)]
            return v != bool(m.group(2))
        m = re.match(r'event (\w+) is fired with (\w+)=(.*)$', text)
        if m:
            params = {m.group(2): eval(m.group(3))}
            return any(e.name == m.group(1) and all(getattr(e, k, None) == v for k, v in params.items()) for e in sent)
        m = re.match(r'event (\w+) is (not )?fired$', text)
        if m:
            params = {p: eval(v) for p, v in (table or [])}
            return any(e.name == m.group(1) and all(getattr(e, k, None) == v for k, v in params.items()) for e in sent) != bool(m.group(2))
        if text == 'no event is fired':
            return not sent
        m = re.match(r'variable (\w+) (equals|does not equal) (\d+|\[.*\]|abs\(-\d+\))$', text)
        if m:
            if m.group(1) not in it.context:
                return False
            return (it.context[m.group(1)] == eval(m.group(3))) == (m.group(2) == 'equals')
        m = re.match(r'expression "(.*)" (holds|does not hold)$', text)
        if m:
            env = dict(it.context)
            env.update(active=lambda name: name in it.configuration, time=it.time)
            return bool(eval(m.group(1), {}, env)) == (m.group(2) == 'holds')
        if text == 'statechart is in a final configuration':
            return it.final
        if text == 'statechart is not in a final configuration':
            return not it.final
        raise ValueError(text)


CHILD = r'''
import sys
sys.path.insert(0, %(repo)r)
from sismic.io import import_from_yaml
from sismic.bdd import execute_bdd
sys.exit(execute_bdd(import_from_yaml(filepath=%(chart)r), %(features)r,
                     behave_parameters=['-f', 'json', '-o', %(out)r, '--no-summary', '-q', '--no-color']))
'''


LONG_CHART = '''statechart:
  name: long
  preamble: n = 0
  root state:
    name: root
    initial: idle
    states:
      - name: idle
        transitions:
          - event: start
            target: counting
            action: send('tick')
      - name: counting
        transitions:
          - event: tick
            guard: n < %(N)d
            action: |
              n = n + 1
              send('tick')
          - event: tick
            guard: n >= %(N)d
            target: done
      - name: done
'''


def long_run_case(acc, rnd):
    """One 'when' step that takes many macro steps (a chart that keeps sending itself an event): the step is over when the
    statechart has nothing left to do, however long that takes."""
    N = rnd.choice((300, 1100, 1500, 2500))
    yaml_text = LONG_CHART % dict(N=N)
    ftext = ('Feature: long\n\n  Scenario: count\n    When I send event start\n    Then variable n equals %d\n'
             '    And state done is active\n    And state counting is exited\n\n  Scenario: nothing left for the next step\n'
             '    Given I send event start\n    When I do nothing\n    Then state done is not entered\n    And variable n equals %d\n' % (N, N))
    os.makedirs(os.path.join(VERIF_DIR, '.work'), exist_ok=True)
    d = tempfile.mkdtemp(prefix='c19-', dir=os.path.join(VERIF_DIR, '.work'))
    try:
        chart_fp, feat_fp, out_fp = os.path.join(d, 'chart.yaml'), os.path.join(d, 'f.feature'), os.path.join(d, 'out.json')
        open(chart_fp, 'w').write(yaml_text)
        open(feat_fp, 'w').write(ftext)
        code = CHILD % dict(repo=REPO, chart=chart_fp, features=[feat_fp], out=out_fp)
        try:
            p = subprocess.run([PYTHON, '-B', '-c', code], stdout=subprocess.PIPE, stderr=subprocess.PIPE, text=True, timeout=600,
                               cwd=d, env=dict(os.environ, PYTHONPATH=REPO))
            rep = json.load(open(out_fp))
        except Exception as e:      # noqa
            acc.note_inconclusive('long-run case: no report from behave (%s)' % (e,))
            return
    finally:
        shutil.rmtree(d, ignore_errors=True)
    acc.count('long_step_scenarios')
    for el in [e for e in rep[0]['elements'] if e['type'] == 'scenario']:
        st = [(x['name'], x.get('result', {}).get('status')) for x in el['steps']]
        if any(status != 'passed' for _n, status in st):
            acc.violation('C19:unsound-verdict', 'a when step that takes %d macro steps: scenario %r reported %r; every assertion is true '
                          'on a plain interpreter executed as documented' % (N + 2, el['name'], st), dict(chart_yaml=yaml_text, feature=ftext))
            return


TABLE_CHART = '''statechart:
  name: table
  preamble: bag = []
  root state:
    name: root
    initial: s
    states:
      - name: s
        transitions:
          - event: put
            action: bag.append(event.v)
'''
CELLS = ["'a\\\\b'", "'x|y'", "'\\\\|'", "'|'", "'C:\\\\dir\\\\f'", "'re\\\\d+'", "'plain'", "'q\\\\'", "['\\\\', '|']", "'a\\\\|b'"]


def table_reproduce_case(acc, rnd):
    """Event parameters given through tables whose cells contain pipes and backslashes, in a scenario that is reproduced by
    another one: the reproduced steps send the very same values."""
    lits = [rnd.choice(CELLS) for _ in range(3)]
    vals = [eval(x) for x in lits]

    def cell(x):
        return x.replace('|', '\\|')
    ftext = ('Feature: tables\n\n  Scenario: base\n    When I send event put\n      | parameter | value |\n      | v | %s |\n'
             '    Then expression "bag == %r" holds\n\n  Scenario: again\n    Given I reproduce "base"\n    When I send event put\n'
             '      | parameter | value |\n      | v | %s |\n    Then expression "bag == %r" holds\n\n  Scenario: twice\n'
             '    Given I reproduce "again"\n    And I reproduce "base"\n    When I send event put\n      | parameter | value |\n'
             '      | v | %s |\n    Then expression "bag == %r" holds\n'
             % (cell(lits[0]), [vals[0]], cell(lits[1]), [vals[0], vals[1]], cell(lits[2]), [vals[0], vals[1], vals[0], vals[2]]))
    if '"' in ftext.replace('"bag', '').replace('" holds', '').replace('"base"', '').replace('"again"', ''):
        return
    os.makedirs(os.path.join(VERIF_DIR, '.work'), exist_ok=True)
    d = tempfile.mkdtemp(prefix='c19-', dir=os.path.join(VERIF_DIR, '.work'))
    try:
        chart_fp, feat_fp, out_fp = os.path.join(d, 'chart.yaml'), os.path.join(d, 'f.feature'), os.path.join(d, 'out.json')
        open(chart_fp, 'w').write(TABLE_CHART)
        open(feat_fp, 'w').write(ftext)
        code = CHILD % dict(repo=REPO, chart=chart_fp, features=[feat_fp], out=out_fp)
        try:
            subprocess.run([PYTHON, '-B', '-c', code], stdout=subprocess.PIPE, stderr=subprocess.PIPE, text=True, timeout=600,
                           cwd=d, env=dict(os.environ, PYTHONPATH=REPO))
            rep = json.load(open(out_fp))
        except Exception as e:      # noqa
            acc.note_inconclusive('table case: no report from behave (%s)' % (e,))
            return
    finally:
        shutil.rmtree(d, ignore_errors=True)
    acc.count('table_reproduce_scenarios')
    for el in [e for e in rep[0]['elements'] if e['type'] == 'scenario']:
        st = [(x['name'], x.get('result', {}).get('status')) for x in el['steps']]
        if any(status != 'passed' for _n, status in st):
            acc.violation('C19:unsound-verdict', 'table cells %r: scenario %r reported %r; every assertion is true on a plain interpreter '
                          'given those values' % (lits, el['name'], st), dict(feature=ftext))
            return


MAPPED_CHART = '''statechart:
  name: mapped
  preamble: n = 0
  root state:
    name: root
    initial: off
    states:
      - name: off
        transitions:
          - event: power
            target: on
            action: send('beep')
      - name: on
        transitions:
          - event: power
            target: off
          - event: beep
            action: n = n + 1
'''
MAPPED_STEPS = '''from sismic.bdd import map_action, map_assertion
map_action('I press the button', 'I send event power')
map_assertion('it is switched on', 'state on is active')
'''


def mapped_steps_case(acc, rnd):
    """User-defined steps declared with the documented map_action / map_assertion helpers: a mapped action used under Given is a
    given step (what it does is not part of the monitored trace), used under When it is a when step."""
    ftext = ('Feature: mapped\n\n  Scenario: given\n    Given I press the button\n    When I do nothing\n    Then it is switched on\n'
             '    And state on is not entered\n    And event beep is not fired\n    And variable n equals 1\n\n  Scenario: when\n'
             '    When I press the button\n    Then state on is entered\n    And event beep is fired\n    And it is switched on\n\n'
             '  Scenario: both\n    Given I press the button\n    When I press the button\n    Then state on is exited\n'
             '    And state on is not entered\n    And event beep is not fired\n')
    os.makedirs(os.path.join(VERIF_DIR, '.work'), exist_ok=True)
    d = tempfile.mkdtemp(prefix='c19-', dir=os.path.join(VERIF_DIR, '.work'))
    try:
        chart_fp, feat_fp, out_fp, steps_fp = (os.path.join(d, x) for x in ('chart.yaml', 'f.feature', 'out.json', 'mysteps.py'))
        open(chart_fp, 'w').write(MAPPED_CHART)
        open(feat_fp, 'w').write(ftext)
        open(steps_fp, 'w').write(MAPPED_STEPS)
        code = ("import sys\nsys.path.insert(0, %r)\nfrom sismic.io import import_from_yaml\nfrom sismic.bdd import execute_bdd\n"
                "sys.exit(execute_bdd(import_from_yaml(filepath=%r), [%r], step_filepaths=[%r], behave_parameters=['-f', 'json', '-o', %r, "
                "'--no-summary', '-q', '--no-color']))\n" % (REPO, chart_fp, feat_fp, steps_fp, out_fp))
        try:
            subprocess.run([PYTHON, '-B', '-c', code], stdout=subprocess.PIPE, stderr=subprocess.PIPE, text=True, timeout=600,
                           cwd=d, env=dict(os.environ, PYTHONPATH=REPO))
            rep = json.load(open(out_fp))
        except Exception as e:      # noqa
            acc.note_inconclusive('mapped steps case: no report from behave (%s)' % (e,))
            return
    finally:
        shutil.rmtree(d, ignore_errors=True)
    acc.count('mapped_step_scenarios')
    for el in [e for e in rep[0]['elements'] if e['type'] == 'scenario']:
        st = [(x['name'], x.get('result', {}).get('status')) for x in el['steps']]
        if any(status != 'passed' for _n, status in st):
            acc.violation('C19:unsound-verdict', 'steps mapped with map_action / map_assertion: scenario %r reported %r; every assertion '
                          'is true on a plain interpreter executed as documented' % (el['name'], st), dict(feature=ftext))
            return


def run_case(acc, rnd, tier, case):
    if case % 16 == 9:
        return long_run_case(acc, rnd)
    if case % 16 == 13:
        return mapped_steps_case(acc, rnd)
    if case % 16 == 3:
        return table_reproduce_case(acc, rnd)
    ch = make_chart(rnd)
    coder = RealCoder()
    yaml_text = build.dump_yaml(build.to_document(ch, coder=coder))
    scenarios = []
    nscn = 30
    background = []
    if rnd.random() < 0.5:
        for _ in range(rnd.randint(1, 2)):
            background.append(('given', rnd.choice(['I send event %s' % rnd.choice(ch['events']), 'I wait 1 second',
                                                    'I send event %s with p=1' % rnd.choice(ch['events'])]), None))
        acc.count('features_with_background')
    # one run of execute_bdd may be given several feature files; their scenarios may well have the same names
    two_files = rnd.random() < 0.3
    split = 12 if two_files else 10 ** 6
    files = [[], []]
    gen_orc = Oracle(yaml_text, scenarios, acc, background)
    tries = 0
    while len(scenarios) < nscn and tries < 4 * nscn:
        tries += 1
        cur = files[0] if len(scenarios) < split else files[1]
        gen_orc.scenarios = dict(cur)
        try:
            sc_steps = gen_scenario(rnd, ch, len(scenarios), [n for n, _ in cur][-5:], gen_orc)
        except Exception:       # noqa – the generated chart is non-deterministic / conflicting under this history: not a BDD matter
            acc.count('scenarios_discarded_chart_error')
            continue
        if any(st[0] == 'then' for st in sc_steps):
            cur.append(('s%d' % len(cur), sc_steps))
            scenarios.append(cur[-1])
    if len(scenarios) < 5 or (two_files and len(files[1]) < 3):
        acc.count('cases_discarded')
        return
    if not two_files:
        files = [files[0]]
    else:
        acc.count('runs_with_two_feature_files')
    if any(s.get('twice') for t in ch['transitions'] for s in t['sends']):
        acc.count('same_event_twice_in_step')
    os.makedirs(os.path.join(VERIF_DIR, '.work'), exist_ok=True)
    d = tempfile.mkdtemp(prefix='c19-', dir=os.path.join(VERIF_DIR, '.work'))
    try:
        chart_fp = os.path.join(d, 'chart.yaml')
        out_fp = os.path.join(d, 'out.json')
        open(chart_fp, 'w').write(yaml_text)
        feats = []
        ftexts = []
        for fi, fscn in enumerate(files):
            fp = os.path.join(d, 'f%d.feature' % fi)
            ftexts.append(feature_text('f%d_%d' % (case, fi), fscn, background))
            open(fp, 'w').write(ftexts[-1])
            feats.append(fp)
        ftext = ftexts[0]
        code = CHILD % dict(repo=REPO, chart=chart_fp, features=feats, out=out_fp)
        env = dict(os.environ, PYTHONPATH=REPO)
        try:
            p = subprocess.run([PYTHON, '-B', '-c', code], stdout=subprocess.PIPE, stderr=subprocess.PIPE, text=True, timeout=600,
                               cwd=d, env=env)
        except subprocess.TimeoutExpired:
            acc.note_inconclusive('behave child timed out')
            return
        try:
            rep = json.load(open(out_fp))
        except Exception as e:      # noqa
            acc.note_inconclusive('no JSON report from behave: %s / %s' % (e, p.stderr[-500:]))
            return
    finally:
        shutil.rmtree(d, ignore_errors=True)
    if len(rep) != len(files):
        acc.note_inconclusive('behave reported %d features, %d were written' % (len(rep), len(files)))
        return
    for fi, fscn in enumerate(files):
        if not check_feature(acc, rnd, yaml_text, fscn, background, rep[fi], ftexts[fi]):
            return
    acc.sample(dict(scenario=[list(s[:3]) for s in scenarios[0][1]][:8]))
    testing_predicates(acc, rnd)


def check_feature(acc, rnd, yaml_text, scenarios, background, feature_report, ftext):
    acc.count('feature_files')
    els = [e for e in feature_report['elements'] if e['type'] == 'scenario']
    if len(els) != len(scenarios):
        acc.note_inconclusive('behave reported %d scenarios, %d were written' % (len(els), len(scenarios)))
        return
    orc = Oracle(yaml_text, scenarios, acc, background)
    wit0 = dict(chart_yaml=yaml_text[:6000])
    for (sname, steps), el in zip(scenarios, els):
        try:
            exp = orc.run(steps)
        except Exception as e:      # noqa – e.g. a generated chart is non-deterministic under this scenario
            acc.count('scenarios_skipped_oracle_error')
            continue
        acc.count('scenarios')
        got = [s.get('result', {}).get('status') for s in el['steps']]
        if len(got) == len(steps) + len(background):
            bg, got = got[:len(background)], got[len(background):]      # behave lists the Background steps first
            if any(x != 'passed' for x in bg):
                acc.violation('C19:given-when-step', 'scenario %s: Background steps reported %r' % (sname, bg),
                              dict(wit0, scenario=steps))
                return
        elif len(got) != len(steps):
            acc.note_inconclusive('behave reported %d steps for a scenario of %d (+%d background) steps' % (len(got), len(steps), len(background)))
            return
        failed = False
        for st, e, g in zip(steps, exp, got):
            if failed:
                if g not in (None, 'skipped', 'untested'):
                    acc.violation('C19:step-after-failure', 'scenario %s: step %r has status %r after a failed step' % (sname, st[1], g),
                                  dict(wit0, scenario=steps, expected=exp, statuses=got))
                    return
                continue
            want = 'passed' if e else 'failed'
            if st[0] == 'then':
                kind = st[3]
                acc.count('then_steps_checked')
                acc.count('then_%s_%s' % (kind.replace(' ', '_'), 'true' if e else 'false'))
                acc.nontrivial((kind, e), cls=kind)
            else:
                acc.count('given_when_steps_checked')
            if g != want:
                key = 'unsound-verdict' if st[0] == 'then' else 'given-when-step'
                acc.violation('C19:' + key, 'scenario %s: %s step %r reported %r; the asserted fact is %s on a plain interpreter '
                              'executed as documented' % (sname, st[0], st[1] + (' ' + repr(st[2]) if st[2] else ''), g,
                                                          'true' if e else 'false'),
                              dict(wit0, scenario=[list(s[:3]) for s in steps], expected=exp, statuses=got, feature=ftext[:200]))
                return
            if not e:
                failed = True
    return True


def testing_predicates(acc, rnd):
    """sismic.testing predicates vs a direct reading of random MacroStep lists."""
    names = ['a', 'b', 'c', 'd']
    evn = ['e', 'f', 'g']
    for _ in range(150):
        steps = []
        ts = [Transition('a', 'b', event='e'), Transition('b', None, event='f'), Transition('c', 'a')]
        for _k in range(rnd.randint(0, 4)):
            micro = []
            for _m in range(rnd.randint(1, 3)):
                sent = []
                for _s in range(rnd.randint(0, 3)):
                    kw = {}
                    if rnd.random() < 0.7:
                        kw['v'] = rnd.randint(0, 2)
                    if rnd.random() < 0.3:
                        kw['w'] = rnd.choice('xy')
                    sent.append(rnd.choice((InternalEvent, InternalEvent, MetaEvent))(rnd.choice(evn), **kw))
                ev = Event(rnd.choice(evn), v=rnd.randint(0, 2)) if rnd.random() < 0.5 else None
                micro.append(MicroStep(event=ev, transition=rnd.choice(ts + [None]),
                                       entered_states=rnd.sample(names, rnd.randint(0, 2)),
                                       exited_states=rnd.sample(names, rnd.randint(0, 2)), sent_events=sent))
            steps.append(MacroStep(rnd.randint(0, 5), micro))
        arg = steps if (len(steps) != 1 or rnd.random() < 0.5) else steps[0]
        n = rnd.choice(names)
        en = rnd.choice(evn + [None])
        params = rnd.choice([None, {}, {'v': rnd.randint(0, 2)}, {'v': rnd.randint(0, 2), 'w': rnd.choice('xy')}])
        t = rnd.choice(ts + [None])
        P = params or {}
        checks = [
            ('state_is_entered', testing.state_is_entered(arg, n), any(n in ms.entered_states for s in steps for ms in s.steps)),
            ('state_is_exited', testing.state_is_exited(arg, n), any(n in ms.exited_states for s in steps for ms in s.steps)),
            ('event_is_fired', testing.event_is_fired(arg, en, params),
             any((en is None or e.name == en) and all(getattr(e, k, None) == v for k, v in P.items())
                 for s in steps for ms in s.steps for e in ms.sent_events)),
            ('event_is_consumed', testing.event_is_consumed(arg, en, params),
             any(s.event is not None and (en is None or s.event.name == en) and all(getattr(s.event, k, None) == v for k, v in P.items())
                 for s in steps)),
            ('transition_is_processed', testing.transition_is_processed(arg, t),
             any((t is None and ms.transition is not None) or (t is not None and ms.transition == t)
                 for s in steps for ms in s.steps)),
        ]
        for name, got, want in checks:
            acc.count('testing_predicate_checks')
            if bool(got) != bool(want):
                acc.violation('C19:testing-predicate', 'sismic.testing.%s returned %r, a direct reading of the macro steps gives %r'
                              % (name, got, want), dict(steps=[repr(s) for s in steps], name=n, event=en, params=params,
                                                        transition=repr(t)))
                return
