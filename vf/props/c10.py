"""C10 – property-statechart monitoring: complete, ordered, fail-fast, non-intrusive (DESIGN §4 C10)."""
from ..common import import_sismic
from ..gen import chart_digest, gen_chart
from ..lockstep import benign, Runner, first_difference, freeze, gen_script
from ..probes import ticking_clock, Probes, make_val
from .. import build

import_sismic()
from sismic.interpreter import Interpreter  # noqa: E402
from sismic.model import (BasicState, Event, CompoundState, FinalState, InternalEvent, MetaEvent,  # noqa: E402
                          Statechart, Transition)
from sismic.exceptions import ContractError, PropertyStatechartError  # noqa: E402

PID = 'C10'
LEVEL = 'exploration'
RULE = ('One case = a generated chart (sends with and without delay, notify) + input history. (1) an attached listener and a '
        'recording property statechart (built with the documented interpreter_klass parameter) log every meta-event into the '
        'same log as the code probes; after every step the log must equal the stream implied by the returned MacroStep: step '
        'started(time), [event consumed(event)], per micro step state exited / transition processed(source,target,event) / '
        'state entered right after the corresponding code, then event sent / notify meta-events, step ended - exactly once, '
        'with attributes, and the property statechart\'s time must equal the step time. (2) for sampled/all k the run is '
        'repeated with a property statechart that becomes final on its k-th meta-event: that very execute_once must raise '
        'PropertyStatechartError and the shared log must end with meta-event k. (3) lock-step run with and without two '
        'never-final property statecharts.  Non-trivial = distinct (chart, k) pairs of (2) plus runs whose stream '
        'contained all 7 documented kinds and a notify.  Also: (4) a listener / property statechart attached while meta-event j of a step is '
        'delivered receives everything that happens afterwards; every documented attribute is read as event.<name> (None values too); sent '
        'events carry an object of the context that monitors must get uncopied; two equal-comparing listener objects are both served; '
        'nothing runs in a step before step started was delivered; a deep copy of a monitored interpreter keeps its monitors in time; a '
        'fifth of the cases use a clock that grows at every reading. (5) a property statechart bound in the plain form that arms a timeout '
        '(a delayed event sent to itself) on its first meta-event of a random kind must fail exactly while the first meta-event whose step '
        'time reaches the deadline is delivered.')
ASSUMPTIONS = ["the undocumented, deprecated 'delayed event sent' meta-event is filtered out before comparison",
               'the listener is attached before the property statechart so that it records meta-event k before the property fails']
REQUIRED_COUNTERS = ['deadline_due', 'identity_of_parameters_checked', 'listeners_attached_mid_step', 'attribute_reads_checked', 'cases_with_ticking_clock', 'monitored_copies_checked', 'sent_predicate_reads', 'deprecated_bind_form', 'stream_steps_checked', 'meta_events_checked', 'failfast_runs', 'noninterference_steps',
                     'streams_with_all_kinds_and_notify', 'property_time_checks', 'kind_event sent', 'kind_notify',
                     'delayed_sends_seen']
KINDS = ['step started', 'step ended', 'event consumed', 'event sent', 'state exited', 'state entered', 'transition processed']
TIERS = dict(quick=dict(steps=25, ks=10, gen=dict(max_states=10, max_depth=4, max_trans=12)),
             thorough=dict(steps=40, ks=120, gen=dict(max_states=16, max_depth=5, max_trans=20)))


def plan(tier):
    return dict(cases=1000 if tier == 'quick' else 5000, shards=16, timeout=900 if tier == 'quick' else 3600)


def recording_property(names):
    """A property statechart that never becomes final and records every meta-event it consumes."""
    sc = Statechart('recorder')
    sc.add_state(CompoundState('proot', initial='w'), None)
    sc.add_state(BasicState('w'), 'proot')
    for n in names:
        sc.add_transition(Transition('w', None, event=n, action='R(event, time)'))
    return sc


def failing_property(names, chain=0):
    """Becomes final on the meta-event at which HIT() answers True - directly, or (chain > 0) after that many further macro steps
    of its own (eventless transitions): it is executed until it has nothing more to do, however long that takes."""
    sc = Statechart('kth')
    sc.add_state(CompoundState('proot', initial='w'), None)
    sc.add_state(BasicState('w'), 'proot')
    sc.add_state(FinalState('f'), 'proot')
    first = 'f'
    if chain:
        for i in range(chain):
            sc.add_state(BasicState('c%d' % i), 'proot')
        for i in range(chain):
            sc.add_transition(Transition('c%d' % i, 'c%d' % (i + 1) if i + 1 < chain else 'f'))
        first = 'c0'
    for n in names:
        sc.add_transition(Transition('w', first, event=n, guard='HIT()'))
    return sc


def deadline_property(arm, delay):
    """A timeout written the documented way: on its first meta-event `arm` the property statechart sends itself a delayed event;
    when that event is due it becomes final.  It has no transition for the other meta-events, and no eventless one."""
    sc = Statechart('deadline')
    sc.add_state(CompoundState('proot', initial='w'), None)
    sc.add_state(BasicState('w'), 'proot')
    sc.add_state(BasicState('armed'), 'proot')
    sc.add_state(FinalState('f'), 'proot')
    sc.add_transition(Transition('w', 'armed', event=arm, action="send('deadline', delay=%r)" % delay))
    sc.add_transition(Transition('armed', 'f', event='deadline'))
    return sc


def expected_stream(step, tmap, t0):
    exp = [('M', 'step started', freeze({'time': t0}))]
    if step is not None:
        if step.event is not None:
            exp.append(('M', 'event consumed', freeze({'event': step.event})))
        for ms in step.steps:
            for s in ms.exited_states:
                exp += [('X', s), ('M', 'state exited', freeze({'state': s}))]
            if ms.transition is not None:
                exp += [('A', tmap[id(ms.transition)]),
                        ('M', 'transition processed', freeze({'source': ms.transition.source,
                                                              'target': ms.transition.target, 'event': ms.event}))]
            for s in ms.entered_states:
                exp += [('E', s), ('M', 'state entered', freeze({'state': s}))]
            for ev in ms.sent_events:
                if isinstance(ev, InternalEvent):
                    exp.append(('M', 'event sent', freeze({'event': ev})))
                else:
                    exp.append(('M', ev.name, freeze(ev.data)))
    exp.append(('M', 'step ended', freeze({})))
    return exp


def norm_log(log):
    out = []
    for e in log:
        if e[0] == 'M':
            if e[1] == 'delayed event sent':
                continue
            out.append(('M', e[1], freeze(e[2])))
        elif e[0] in ('E', 'X', 'A'):
            out.append((e[0], e[1]))
    return out


class Mailbox:
    """A parameter of sent events that is what it is (a lock, a socket, a reply mailbox): monitors get *it*, not a copy, and
    nobody copies it on their behalf."""

    def __init__(self):
        self.copies = 0

    def __copy__(self):
        return self         # (the context's values are shallow-copied for __old__: documented)

    def __deepcopy__(self, memo):
        self.copies += 1
        return self

    def __repr__(self):
        return 'Mailbox'


class EqualRecorder:
    """A listener that compares equal to every other instance of its class (a dataclass without fields does): two attached
    instances are two listeners."""

    def __init__(self):
        self.got = []

    def __eq__(self, other):
        return isinstance(other, EqualRecorder)

    def __hash__(self):
        return 7

    def __call__(self, m):
        if m.name != 'delayed event sent':
            self.got.append((m.name, freeze(m.data)))


class Coder10(build.Coder):
    """State invariants record what the documented sent() predicate answers for the notify names: the monitored run must
    not depend on whether somebody listens.  Everything sent carries ref=REF (an object of the context)."""

    def entry(self, ch, n):
        return build.Coder.entry(self, ch, n).replace('u=U()', 'u=U(), ref=REF')

    def exit(self, ch, n):
        return build.Coder.exit(self, ch, n).replace('u=U()', 'u=U(), ref=REF')

    def action(self, ch, t):
        return build.Coder.action(self, ch, t).replace('u=U()', 'u=U(), ref=REF')

    def cond(self, ch, owner_is_transition, cid, kind):
        if kind == 'inv' and not owner_is_transition:
            return "S(%r, sent('m0'), sent('m1'), sent(%r))" % (cid, ch['events'][0])
        return 'True'


CODER10 = Coder10()


def run_case(acc, rnd, tier, case):
    T = TIERS[tier]
    ch = gen_chart(rnd, mode=rnd.choice((None, 'orth', 'history', 'queue')), p_send=0.5, p_state_send=0.2, p_notify=0.4,
                   contracts=True, p_contract=0.3, **T['gen'])
    script = gen_script(rnd, ch['events'], T['steps'])
    if rnd.random() < 0.3:
        for j in range(rnd.randint(1, 3)):
            script.insert(rnd.randrange(len(script) + 1), ('queue_internal', rnd.choice(ch['events']), -10 - j))
        acc.count('internal_events_queued_from_outside')
    valseed, p_true = rnd.random(), rnd.choice((0.5, 0.8, 1.0))
    names = KINDS + ['m0', 'm1', 'delayed event sent']
    wit = dict(chart=ch, script=script, p_true=p_true)
    dg = chart_digest(ch)

    # ---- (1) stream completeness/order/attributes + property time ---------------------------------
    sc, tmap = build.build_api(ch, coder=CODER10)
    pr = Probes(val=make_val(valseed, p_true))
    # one case in five runs on a clock whose value grows with every reading: the time of a step is then whatever
    # Interpreter.time shows afterwards, and 'step started', MacroStep.time and the monitors' clocks must all agree with it
    ticking = rnd.random() < 0.2
    REF = Mailbox()
    no_contracts = rnd.random() < 0.2       # documented parameter: the stream of meta-events is the same
    if no_contracts:
        acc.count('cases_with_ignore_contract')
    it = Interpreter(sc, initial_context=pr.context(REF=REF), clock=ticking_clock() if ticking else None, ignore_contract=no_contracts)
    it.attach(pr.listener())
    held = []           # 'step started' meta-events kept beyond their step, with the time they carried when delivered
    it.attach(lambda m: held.append((m, m.time)) if m.name == 'step started' else None)
    rec = []
    if ticking:
        acc.count('cases_with_ticking_clock')

    attr_problems = []

    def read_attributes(m, who):
        # "with the documented attributes": every attribute is reachable as event.<name>, whatever its value (None included)
        for kk, vv in m.data.items():
            try:
                got = getattr(m, kk)
            except AttributeError as e:
                attr_problems.append((who, m.name, kk, repr(vv), 'AttributeError: %s' % e))
                continue
            if got is not vv:
                attr_problems.append((who, m.name, kk, repr(vv), repr(got)))
            inner = vv.data.get('ref') if isinstance(vv, Event) else (vv if kk == 'ref' else None)
            if inner is not None:
                acc.count('identity_of_parameters_checked')
                if inner is not REF:
                    attr_problems.append((who, m.name, 'ref', 'the very object that was sent', 'another object (%r)' % (inner,)))
    it.attach(lambda m: read_attributes(m, 'listener'))
    twins = [EqualRecorder(), EqualRecorder()]
    for tw in twins:
        it.attach(tw)

    def R(event, time):
        read_attributes(event, 'property statechart')
        rec.append((event.name, freeze(event.data), time))
    if rnd.random() < 0.25:
        # deprecated but supported form: an Interpreter instance is given; it must be synchronised all the same
        import warnings
        with warnings.catch_warnings():
            warnings.simplefilter('ignore')
            it.bind_property_statechart(Interpreter(recording_property(names), initial_context={'R': R}))
        acc.count('deprecated_bind_form')
    else:
        it.bind_property_statechart(recording_property(names),
                                    interpreter_klass=lambda s, clock: Interpreter(s, clock=clock, initial_context={'R': R}))
    r = Runner(it, tmap, log=pr.log)
    base_obs = []
    meta_per_step = []          # number of documented meta-events emitted in each step
    meta_seq = []               # (step, name, step time) of every documented meta-event of the fully checked steps
    kinds_seen = set()
    k = 0
    for op in script:
        if op[0] != 'step':
            n0 = len(pr.log)
            r.apply(op)
            outside = [e for e in pr.log[n0:] if e[0] == 'M']
            if outside:
                acc.violation('C10:meta-event-outside-a-step', '%s delivered %r to the listeners although no step was under way and '
                              'the statechart did nothing' % (op[0], outside[0][:2]), dict(wit, op=op))
                return
            continue
        pr.stepno = k
        del rec[:]
        t0 = None if ticking else it.clock.time
        o = r.apply(op)
        if ticking:
            t0 = it.time
        base_obs.append(o + (tuple(e if e[0] == 'S' else (e[0], e[1]) for e in pr.log if e[0] in 'EXAUS'),))
        if o[0] == 'raise':
            if isinstance(r.last_error, PropertyStatechartError):
                acc.violation('C10:never-final-property-raised', 'a property statechart that cannot become final raised', wit)
                return
            if not benign(r.last_error) and not isinstance(r.last_error, ContractError):
                acc.violation('C10:unexpected-exception', 'step %d of the monitored run raised %s: %s (code, conditions and monitors of '
                              'this case only call probes)' % (k, type(r.last_error).__name__, str(r.last_error)[:200].replace('\n', ' ')),
                              dict(wit, step=k))
                return
            meta_per_step.append(len([e for e in norm_log(pr.log) if e[0] == 'M']))
            break
        step = r.last_step
        if twins[0].got != twins[1].got or (o[0] != 'raise' and [x for x in twins[0].got if x[0] == 'step started'] == []):
            acc.violation('C10:equal-listeners-not-both-served', 'two listeners that compare equal (two instances of one class) are '
                          'attached: the first received %d meta-events in step %d, the second %d'
                          % (len(twins[0].got), k, len(twins[1].got)), dict(wit, step=k))
            return
        del twins[0].got[:], twins[1].got[:]
        if REF.copies:
            acc.violation('C10:parameter-copied', 'step %d: a parameter of a sent event was copied %d times (a bound property '
                          'statechart that never fails may not change the monitored run)' % (k, REF.copies), dict(wit, step=k))
            return
        if attr_problems:
            who, mname, kk, vv, got = attr_problems[0]
            acc.violation('C10:documented-attribute-unreadable', "step %d: attribute %r of meta-event '%s' (value %s) read by a %s as "
                          'event.%s gives %s' % (k, kk, mname, vv, who, kk, got), dict(wit, step=k))
            return
        acc.count('attribute_reads_checked')
        if step is not None and step.time != t0:
            acc.violation('C10:step-time', 'step %d: MacroStep.time is %r, the step was executed at %r' % (k, step.time, t0), dict(wit, step=k))
            return
        first = next((e for e in pr.log if e[0] in ('M', 'G', 'E', 'X', 'A', 'K', 'U', 'S')), None)
        if first is not None and not (first[0] == 'M' and first[1] == 'step started'):
            acc.violation('C10:something-before-step-started', "step %d: %r happened before the 'step started' meta-event was delivered"
                          % (k, first[:2]), dict(wit, step=k))
            return
        got = norm_log(pr.log)
        exp = expected_stream(step, tmap, t0)
        if got != exp:
            i = next((j for j, (a, b) in enumerate(zip(got, exp)) if a != b), min(len(got), len(exp)))
            acc.violation('C10:stream-differs', 'step %d: listener/code log differs from what happened at position %d: got %r, '
                          'expected %r' % (k, i, got[i:i + 3], exp[i:i + 3]), dict(wit, step=k, macro=str(step)))
            return
        # the 'event sent' / notify meta-events must come in the order in which the code called send()/notify()
        called = [e[1] for e in pr.log if e[0] == 'U']
        announced = []
        for e in pr.log:
            if e[0] == 'M' and e[1] != 'delayed event sent':
                if e[1] == 'event sent':
                    announced.append(e[2]['event'].data.get('u'))
                elif e[1] not in KINDS:
                    announced.append(e[2].get('u'))
        if announced != called:
            acc.violation('C10:sent-order-differs-from-code', 'step %d: the code called send/notify with ids %r, listeners were told %r'
                          % (k, called, announced), dict(wit, step=k))
            return
        mexp = [(e[1], e[2]) for e in exp if e[0] == 'M']
        mrec = [(n, d) for (n, d, tm) in rec if n != 'delayed event sent']
        if mrec != mexp:
            acc.violation('C10:property-stream-differs', 'step %d: the bound property statechart consumed %r, expected %r'
                          % (k, mrec[:6], mexp[:6]), dict(wit, step=k))
            return
        for (n, d, tm) in rec:
            acc.count('property_time_checks')
            if tm != t0:
                acc.violation('C10:property-time', "step %d at time %r: property statechart saw time %r while consuming '%s'"
                              % (k, t0, tm, n), dict(wit, step=k))
                return
        for n, d in mexp:
            kk = n if n in KINDS else 'notify'
            kinds_seen.add(kk)
            acc.count('kind_' + kk)
        if any(e[0] == 'M' and e[1] == 'delayed event sent' for e in pr.log):
            acc.count('delayed_sends_seen')
        stale = [(m_, t_) for (m_, t_) in held if m_.time != t_]
        if stale:
            acc.violation('C10:kept-meta-event-changed', "a 'step started' meta-event delivered with time %r reads %r %d steps later"
                          % (stale[0][1], stale[0][0].time, len(held) - held.index(stale[0]) - 1), dict(wit, step=k))
            return
        acc.count('stream_steps_checked')
        acc.count('meta_events_checked', len(mexp))
        meta_per_step.append(len(mexp))
        meta_seq.extend((k, n, t0) for n, d in mexp)
        k += 1
    # a deep copy of the monitored interpreter takes its monitors along: their clocks follow the copy, not the original
    if rnd.random() < 0.3:
        import copy
        try:
            twin = copy.deepcopy(it)
        except Exception as e:      # noqa
            acc.violation('C10:deepcopy-with-monitor-raised', 'copy.deepcopy of a monitored interpreter raised %s: %s'
                          % (type(e).__name__, str(e)[:200]), wit)
            return
        twin.clock.time += 3
        del rec[:]
        t0 = None if ticking else twin.clock.time
        try:
            twin.execute_once()
        except Exception:       # noqa
            pass
        if ticking:
            t0 = twin.time
        acc.count('monitored_copies_checked')
        for (n, d, tm) in rec:
            if tm != t0:
                acc.violation('C10:property-time', "a deep copy of the monitored interpreter stepped at %r: its property statechart saw "
                              "time %r while consuming '%s' (the original is at %r)" % (t0, tm, n, it.time), wit)
                return
    if len(kinds_seen) == 8:
        acc.count('streams_with_all_kinds_and_notify')
        acc.nontrivial((dg, 'all-kinds'))
    M = sum(meta_per_step)

    # ---- (3) non-interference -------------------------------------------------------------------------
    sc2, tmap2 = build.build_api(ch, coder=CODER10)
    pr2 = Probes(val=make_val(valseed, p_true))
    it2 = Interpreter(sc2, initial_context=pr2.context(REF=REF), clock=ticking_clock() if ticking else None, ignore_contract=no_contracts)
    r2 = Runner(it2, tmap2, log=pr2.log)
    k2 = 0
    for op in script:
        if op[0] != 'step':
            r2.apply(op)
            continue
        if k2 >= len(base_obs):
            break
        pr2.stepno = k2
        o = r2.apply(op) + (tuple(e if e[0] == 'S' else (e[0], e[1]) for e in pr2.log if e[0] in 'EXAUS'),)
        acc.count('sent_predicate_reads', sum(1 for e in pr2.log if e[0] == 'S'))
        a = base_obs[k2]
        if a != o:
            d = first_difference(a, o) or 'executed code differs'
            acc.violation('C10:monitoring-changes-run', 'step %d: run with two never-final property statecharts vs run '
                          'without: %s' % (k2, d), dict(wit, step=k2))
            return
        acc.count('noninterference_steps')
        k2 += 1

    # ---- (2) fail-fast at the k-th meta-event -----------------------------------------------------------
    if M == 0:
        return
    ks = list(range(1, M + 1))
    if len(ks) > T['ks']:
        ks = sorted(rnd.sample(ks, T['ks']))
    for kth in ks:
        # step in which meta-event kth is emitted
        cum = 0
        at = None
        for i, n in enumerate(meta_per_step):
            if cum + n >= kth:
                at = i
                break
            cum += n
        sc3, tmap3 = build.build_api(ch, coder=CODER10)
        pr3 = Probes(val=make_val(valseed, p_true))
        it3 = Interpreter(sc3, initial_context=pr3.context(REF=REF), clock=ticking_clock() if ticking else None, ignore_contract=no_contracts)
        it3.attach(pr3.listener())
        cnt = [0]

        def HIT():
            cnt[0] += 1
            return cnt[0] == kth
        chain = rnd.choice((0, 0, 0, 2, 11, 25))
        if chain:
            acc.count('failfast_runs_with_a_property_that_needs_several_steps_of_its_own')
        lst3 = it3.bind_property_statechart(failing_property(KINDS + ['m0', 'm1'], chain),
                                     interpreter_klass=lambda s, clock: Interpreter(s, clock=clock, initial_context={'HIT': HIT}))
        r3 = Runner(it3, tmap3, log=None)
        k3 = 0
        outcome = None
        nmeta_before = 0
        for op in script:
            if op[0] != 'step':
                r3.apply(op)
                continue
            pr3.stepno = k3
            del pr3.log[:]
            o = r3.apply(op)
            if o[0] == 'raise':
                outcome = (k3, r3.last_error)
                break
            nmeta_before += len([e for e in norm_log(pr3.log) if e[0] == 'M'])
            k3 += 1
            if k3 > at:
                break
        acc.count('failfast_runs')
        w = dict(wit, kth=kth, expected_step=at)
        if outcome is None or not isinstance(outcome[1], PropertyStatechartError):
            acc.violation('C10:failfast-not-raised', 'property statechart became final on meta-event %d (step %d) but '
                          'execute_once %s' % (kth, at, 'returned normally' if outcome is None else
                                               'raised %s' % type(outcome[1]).__name__), w)
            return
        if outcome[0] != at:
            acc.violation('C10:failfast-wrong-step', 'PropertyStatechartError raised in step %d, meta-event %d belongs to '
                          'step %d' % (outcome[0], kth, at), w)
            return
        tail = [e for e in pr3.log if e[0] in ('E', 'X', 'A', 'G', 'K', 'U', 'M') and not (e[0] == 'M' and e[1] == 'delayed event sent')]
        nm = nmeta_before + len([e for e in tail if e[0] == 'M'])
        if not tail or tail[-1][0] != 'M' or nm != kth:
            acc.violation('C10:code-after-property-failure', 'after meta-event %d made the property final the monitored '
                          'statechart went on: log tail %r (meta-events seen %d)' % (kth, [x[:2] for x in tail[-4:]], nm), w)
            return
        # the step that was cut short did start: the interpreter's time is the one its 'step started' announced (monitors bound
        # to it - synchronised clocks - read it after the failure has been caught)
        started = [e[2].get('time') for e in pr3.log if e[0] == 'M' and e[1] == 'step started']
        if started and not ticking:
            acc.count('time_after_failed_property_checked')
            if it3.time != started[-1]:
                acc.violation('C10:time-after-property-failure', "the call in which the property statechart failed (meta-event %d) announced "
                              "'step started' with time %r; after PropertyStatechartError was caught Interpreter.time is %r"
                              % (kth, started[-1], it3.time), w)
                return
        # the failed monitor is taken off and the interpreter is used further: the remaining listeners go on receiving
        it3.detach(lst3)
        del pr3.log[:]

        class StopNow(Exception):
            pass

        def stopper(m):         # (attached last: the call is cut right after 'step started' went round - the interrupted step may
            raise StopNow()     #  have left anything behind, only the delivery is judged)
        it3.attach(stopper)
        try:
            it3.execute_once()
        except StopNow:
            pass
        except Exception:       # noqa
            pass
        acc.count('calls_after_a_failed_property')
        if not any(e[0] == 'M' and e[1] == 'step started' for e in pr3.log):
            acc.violation('C10:listeners-deaf-after-a-property-failure', "after a property statechart had failed (meta-event %d) and had "
                          "been detached, the next execute_once delivered no 'step started' to the listener that is still attached" % kth, w)
            return
        acc.nontrivial((dg, kth), cls='failfast')
    # ---- (5) a property statechart that progresses on a delayed event it sent to itself (a timeout) ---------------------------
    # bound in the plain documented form; it is executed at every meta-event, so it turns final at the first meta-event whose
    # step time has reached the deadline - whatever that meta-event is called
    if meta_seq and not ticking:
        arm = rnd.choice(sorted(set(n for (_, n, _) in meta_seq)))
        delay = rnd.choice((0, 1, 1, 2, 3, 5, 8))
        i_arm = next(j for j, (_, n, _) in enumerate(meta_seq) if n == arm)
        due = meta_seq[i_arm][2] + delay
        j_due = next((j for j in range(i_arm if delay == 0 else i_arm + 1, len(meta_seq)) if meta_seq[j][2] >= due), None)
        sc5, tmap5 = build.build_api(ch, coder=CODER10)
        pr5 = Probes(val=make_val(valseed, p_true))
        it5 = Interpreter(sc5, initial_context=pr5.context(REF=REF), ignore_contract=no_contracts)
        it5.attach(pr5.listener())
        it5.bind_property_statechart(deadline_property(arm, delay))
        r5 = Runner(it5, tmap5, log=None)
        k5, seen5, outcome = 0, 0, None
        last_full = meta_seq[-1][0]
        for op in script:
            if op[0] != 'step':
                r5.apply(op)
                continue
            if k5 > last_full:
                break
            pr5.stepno = k5
            del pr5.log[:]
            o = r5.apply(op)
            ms = [e for e in norm_log(pr5.log) if e[0] == 'M']
            if o[0] == 'raise':
                outcome = (k5, r5.last_error, seen5 + len(ms))
                break
            seen5 += len(ms)
            k5 += 1
        acc.count('deadline_properties_checked')
        w = dict(wit, arm=arm, delay=delay, armed_at=i_arm, due_at=j_due)
        if j_due is None:
            acc.count('deadline_never_due')
            if outcome is not None and isinstance(outcome[1], PropertyStatechartError):
                acc.violation('C10:timeout-property-failed-early', "a property statechart that arms a %r-second timeout on its first '%s' "
                              '(meta-event %d, time %r) became final at meta-event %d although no later meta-event of the run had a step '
                              'time >= %r' % (delay, arm, i_arm + 1, meta_seq[i_arm][2], outcome[2], due), w)
                return
        else:
            acc.count('deadline_due')
            if outcome is None or not isinstance(outcome[1], PropertyStatechartError):
                acc.violation('C10:timeout-property-not-raised', "a property statechart arms a %r-second timeout on its first '%s' (meta-event "
                              "%d, time %r); meta-event %d ('%s', step %d, time %r) is the first one delivered when the timeout is due, but "
                              '%s' % (delay, arm, i_arm + 1, meta_seq[i_arm][2], j_due + 1, meta_seq[j_due][1], meta_seq[j_due][0],
                                      meta_seq[j_due][2], 'no call raised' if outcome is None else 'step %d raised %s'
                                      % (outcome[0], type(outcome[1]).__name__)), w)
                return
            if outcome[2] != j_due + 1:
                acc.violation('C10:timeout-property-wrong-moment', "a property statechart arms a %r-second timeout on its first '%s' (meta-event "
                              "%d, time %r): it must become final while meta-event %d ('%s', step %d, time %r) is delivered, "
                              'PropertyStatechartError came in step %d after %d meta-events'
                              % (delay, arm, i_arm + 1, meta_seq[i_arm][2], j_due + 1, meta_seq[j_due][1], meta_seq[j_due][0],
                                 meta_seq[j_due][2], outcome[0], outcome[2]), w)
                return
            acc.nontrivial((dg, 'deadline', arm, delay), cls='timeout')
    # ---- (4) a listener / property statechart attached while a step is under way ------------------------------------
    # it is attached from then on: it receives every meta-event that happens afterwards, those of the same step included
    if M >= 2:
        target = rnd.randint(1, M - 1)
        as_property = rnd.random() < 0.5
        sc4, tmap4 = build.build_api(ch, coder=CODER10)
        pr4 = Probes(val=make_val(valseed, p_true))
        it4 = Interpreter(sc4, initial_context=pr4.context(REF=REF), clock=ticking_clock() if ticking else None, ignore_contract=no_contracts)
        seen, late = [], []

        def R4(event, time):
            late.append((event.name, freeze(event.data)))

        def watcher(m):
            if m.name == 'delayed event sent':
                return
            seen.append((m.name, freeze(m.data)))
            if len(seen) == target:
                if as_property:
                    it4.bind_property_statechart(recording_property(names),
                                                 interpreter_klass=lambda s, clock: Interpreter(s, clock=clock, initial_context={'R': R4}))
                else:
                    it4.attach(lambda m2: late.append((m2.name, freeze(m2.data))) if m2.name != 'delayed event sent' else None)
        it4.attach(watcher)
        r4 = Runner(it4, tmap4, log=None)
        k4 = 0
        for op in script:
            if op[0] == 'step':
                pr4.stepno = k4
                k4 += 1
                if k4 > len(meta_per_step):
                    break
            o = r4.apply(op)
            if op[0] == 'step' and o[0] == 'raise':
                break
        if len(seen) >= target:
            acc.count('listeners_attached_mid_step')
            want = seen[target:]
            got4 = [e for e in late if e[0] != 'delayed event sent']
            if got4 != want:
                i = next((j for j, (a, b) in enumerate(zip(got4, want)) if a != b), min(len(got4), len(want)))
                acc.violation('C10:attached-mid-step-misses-events', 'a %s attached while meta-event %d was being delivered received %d of '
                              'the %d meta-events that happened afterwards; first difference at %d: got %r, happened %r'
                              % ('property statechart' if as_property else 'listener', target, len(got4), len(want), i,
                                 got4[i:i + 2], want[i:i + 2]), dict(wit, target=target, as_property=as_property))
                return
    acc.sample(dict(states=len(ch['states']), steps=k, meta_events=M, ks=ks[:12], kinds=sorted(kinds_seen)))
