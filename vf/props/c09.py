"""C09 – contract checking is transparent (DESIGN §4 C09): differential monitor, checked run vs
ignore_contract=True run, plus 'no condition is ever evaluated / no ContractError' with contracts ignored."""
import os

from ..common import REPO, import_sismic
from ..gen import chart_digest, gen_chart
from ..lockstep import benign, Runner, first_difference, freeze, gen_script
from ..probes import Probes, make_val
from .. import build
from .c08 import VCoder, Box, Handle
from ..probes import ticking_clock

import_sismic()
from sismic.interpreter import Interpreter  # noqa: E402
from sismic.exceptions import ContractError  # noqa: E402
from sismic.io import import_from_yaml  # noqa: E402

from sismic.code import PythonEvaluator  # noqa: E402


class Coder09(VCoder):
    """Invariants and postconditions also call the documented after()/idle() predicates (their value does not matter):
    whatever they read, reading it may not change the run."""

    @staticmethod
    def _mark(code):
        """before every send()/notify() the code tells the harness which name it is about to send"""
        import re
        out = []
        for line in code.split('\n'):
            m = re.match(r"(send|notify)\('([^']+)'", line)
            if m:
                out.append('SN(%r)' % m.group(2))
            out.append(line)
        return '\n'.join(out)

    @staticmethod
    def shared(n):
        """One state in five uses one and the same code text as its precondition, as its whole entry code and as the guard of its
        unguarded transitions (a call that is an expression and a statement): which use comes first depends on whether
        contracts are checked, and may not matter."""
        import zlib
        return zlib.crc32(('sh:' + n).encode()) % 5 == 0

    def guard(self, ch, t):
        g = VCoder.guard(self, ch, t)
        if g is None and self.shared(t['source']):
            return 'SH(%r)' % t['source']
        return g

    def entry(self, ch, n):
        if self.shared(n):
            return 'SH(%r)' % n
        return self._mark(VCoder.entry(self, ch, n))

    def exit(self, ch, n):
        return self._mark(VCoder.exit(self, ch, n))

    def action(self, ch, t):
        return self._mark(VCoder.action(self, ch, t))

    def cond(self, ch, owner_is_transition, cid, kind):
        if kind == 'pre' and not owner_is_transition and self.shared(cid.rsplit('.', 1)[0]):
            return 'SH(%r)' % cid.rsplit('.', 1)[0]
        c = VCoder.cond(self, ch, owner_is_transition, cid, kind)
        if kind == 'inv' and not owner_is_transition:
            # at the end of a step sent(name) holds exactly for the names the code sent or notified during the step:
            # a condition that says so holds, and must not be what makes the checked run differ from the unchecked one
            c += " and (sent('m0') == N('m0')) and (sent('m1') == N('m1'))"
        if kind != 'pre':
            # true by construction (every fragment bumps v and box.n together; a transition's action is exactly one fragment):
            c += " and __old__.box.n == __old__.v and __old__.cnt['never set'] == 0"       # (cnt is a collections.Counter)
            if owner_is_transition and kind == 'post':
                c += ' and __old__.v == v - 1'
        if kind != 'pre':
            import zlib
            h = zlib.crc32(cid.encode()) % 4
            if h == 0:
                c += ' and (after(1) or True)'
            elif h == 1:
                c += ' and (idle(2) or after(0.5) or True)'
        return c


CODER = Coder09()


class EagerEvaluator(PythonEvaluator):
    """A legitimate evaluator (documented evaluator_klass extension point): evaluate_* return *lists* of unsatisfied
    conditions, as their docstrings say, i.e. every condition is evaluated as soon as the method is called."""

    def evaluate_preconditions(self, obj, event=None):
        return list(PythonEvaluator.evaluate_preconditions(self, obj, event))

    def evaluate_invariants(self, obj, event=None):
        return list(PythonEvaluator.evaluate_invariants(self, obj, event))

    def evaluate_postconditions(self, obj, event=None):
        return list(PythonEvaluator.evaluate_postconditions(self, obj, event))


PID = 'C09'
LEVEL = 'exploration'
RULE = ('One case = (a) a generated chart with contracts (conditions are probes; in 1/3 of the cases some occurrences are '
        'planned to fail) or (b) one of the two shipped contract charts with a random event/time history; two real '
        'interpreters (ignore_contract False / True) are driven in lock-step and every macro step, configuration, context, '
        'executed code sequence and meta-event stream is compared until the checked side raises a ContractError (the run is '
        'cut there); on the ignoring side the number of condition evaluations must be 0 and no ContractError may be raised. '
        'Conditions also call after()/idle() and compare sent(name) with what the code sent; a fifth of the runs use a clock that grows at every '
        'reading; an eager user evaluator; a bound property statechart built by a user factory.  '
        'Non-trivial = distinct runs with >= 10 condition evaluations on the checked side and 0 on the other.')
ASSUMPTIONS = ['conditions of generated charts are side-effect free apart from the probe counter',
               'shipped charts: elevator_contract.yaml, microwave_with_contracts.yaml']
REQUIRED_COUNTERS = ['runs_with_ticking_clock', 'runs_with_bound_property_statechart', 'runs_with_eager_evaluator', 'steps_compared', 'runs_with_10plus_evaluations', 'shipped_chart_runs', 'runs_with_planned_failures',
                     'conditions_evaluated_checked_side', 'time_predicate_guard_steps']
TIERS = dict(quick=dict(steps=30, gen=dict(max_states=12, max_depth=4, max_trans=14)),
             thorough=dict(steps=60, gen=dict(max_states=18, max_depth=5, max_trans=24)))
SHIPPED = ['docs/examples/elevator/elevator_contract.yaml', 'docs/examples/microwave/microwave_with_contracts.yaml']


def plan(tier):
    return dict(cases=2400 if tier == 'quick' else 40000, shards=16, timeout=900 if tier == 'quick' else 3600)


def meta_stream(log):
    return tuple((e[1], freeze(e[2])) for e in log if e[0] == 'M')


def run_case(acc, rnd, tier, case):
    T = TIERS[tier]
    if rnd.random() < 0.2:
        return shipped_case(acc, rnd, tier, case)
    timed = rnd.random() < 0.4
    ch = gen_chart(rnd, contracts=True, p_contract=rnd.choice((0.35, 0.5, 0.7)), mode=rnd.choice((None, 'orth', 'history')),
                   p_hist=0.3, timed=timed, p_internal=0.35 if timed else 0.2, **T['gen'])
    script = gen_script(rnd, ch['events'], T['steps'], p_clock=0.6 if timed else 0.3)
    valseed, p_true = rnd.random(), rnd.choice((0.5, 0.8, 1.0))
    failing = rnd.random() < 0.33
    failseed = rnd.random()
    cond_plan = None
    if failing:
        fv = make_val(failseed, 0.97)
        cond_plan = lambda cid, i: fv(i, cid)      # noqa: E731
        acc.count('runs_with_planned_failures')
    sides = []
    bind_outcome = []
    with_property = rnd.random() < 0.3
    if with_property:
        acc.count('runs_with_bound_property_statechart')
    eager = rnd.random() < 0.3 and not failing
    if eager:
        acc.count('runs_with_eager_evaluator')
    ticking = rnd.random() < 0.2        # a clock that grows with every reading: both runs must read it equally often
    if ticking:
        acc.count('runs_with_ticking_clock')
    for ignore in (False, True):
        sc, tmap = build.build_api(ch, coder=CODER)
        if not ignore:
            acc.count('states_sharing_one_text_as_precondition_entry_and_guard',
                      sum(1 for st_ in sc.states if CODER.shared(st_) and sc.state_for(st_).preconditions
                          and any(t_.guard == 'SH(%r)' % st_ for t_ in sc.transitions_from(st_))))
        pr = Probes(val=make_val(valseed, p_true))
        pr.cond_plan = cond_plan
        pr.names = []
        it = Interpreter(sc, initial_context=pr.context(v=0, box=Box(), lst=[], _p=0, res={'h': Handle()}, mathmod=os, cnt=__import__('collections').Counter(), SH=lambda tag: True, SN=pr.names.append,
                                                        N=lambda name, _l=pr.names: name in _l), ignore_contract=ignore,
                         evaluator_klass=EagerEvaluator if eager else PythonEvaluator, clock=ticking_clock() if ticking else None)
        it.attach(pr.listener())
        if with_property:
            from .c10 import recording_property, KINDS

            def factory(statechart, *, clock):          # exactly the documented signature of interpreter_klass
                return Interpreter(statechart, clock=clock, initial_context={'R': lambda event, time: None})
            try:
                it.bind_property_statechart(recording_property(KINDS + ['m0', 'm1']), interpreter_klass=factory)
                bind_outcome.append('ok')
            except Exception as e:      # noqa
                bind_outcome.append('%s: %s' % (type(e).__name__, str(e)[:120]))
        sides.append((pr, it, Runner(it, tmap, log=pr.log)))
    (pa, ia, ra), (pb, ib, rb) = sides
    wit = dict(chart=ch, script=script, p_true=p_true, failing=failing)
    if with_property and bind_outcome != ['ok', 'ok']:
        acc.violation('C09:binding-a-property-statechart-differs', 'bind_property_statechart with a factory of the documented signature '
                      '(statechart, *, clock): checked interpreter -> %s; ignore_contract=True interpreter -> %s' % tuple(bind_outcome), wit)
        return
    k = 0
    evals = 0
    for op in script:
        if op[0] != 'step':
            ra.apply(op)
            rb.apply(op)
            continue
        pa.stepno = pb.stepno = k
        del pa.names[:], pb.names[:]
        oa = ra.apply(op)
        la = list(pa.log)
        ob = rb.apply(op)
        lb = list(pb.log)
        kb = [e for e in lb if e[0] == 'K']
        if kb:
            acc.violation('C09:condition-evaluated-while-ignored', 'step %d: %d contract conditions evaluated with '
                          'ignore_contract=True, e.g. %r' % (k, len(kb), kb[0][:2]), dict(wit, step=k))
            return
        if ob[0] == 'raise' and isinstance(rb.last_error, ContractError):
            acc.violation('C09:contract-error-while-ignored', 'step %d: %s raised with ignore_contract=True' %
                          (k, type(rb.last_error).__name__), dict(wit, step=k))
            return
        if oa[0] == 'raise' and isinstance(ra.last_error, ContractError):
            if not failing:
                acc.violation('C09:spurious-contract-error', 'step %d: every condition of this chart holds, yet the checked run raised '
                              '%s (%s) while the ignore_contract=True run went on' % (k, type(ra.last_error).__name__,
                                                                                    str(getattr(ra.last_error, 'condition', ''))[:120]),
                              dict(wit, step=k))
                return
            acc.count('runs_cut_at_contract_error')
            break
        evals += sum(1 for e in la if e[0] == 'K')
        d = first_difference(oa, ob)
        if d is None:
            ca = tuple((e[0], e[1]) for e in la if e[0] in 'EXAU')
            cb = tuple((e[0], e[1]) for e in lb if e[0] in 'EXAU')
            if ca != cb:
                d = 'executed code %r vs %r' % (ca[:10], cb[:10])
            elif meta_stream(la) != meta_stream(lb):
                d = 'meta-event streams differ: %r vs %r' % (meta_stream(la)[:6], meta_stream(lb)[:6])
            elif (ia.context['box'].n, ib.context['box'].n) != (ia.context['v'], ib.context['v']):
                d = 'box.n %r/%r' % (ia.context['box'].n, ib.context['box'].n)
        if d is not None:
            acc.violation('C09:runs-differ', 'step %d: checked vs ignore_contract=True: %s' % (k, d), dict(wit, step=k))
            return
        acc.count('steps_compared')
        if timed and any(e[0] == 'T' for e in la):
            acc.count('time_predicate_guard_steps')
        if oa[0] == 'raise':
            if not benign(ra.last_error) and not isinstance(ra.last_error, ContractError):
                acc.violation('C09:unexpected-exception', 'step %d raised %s: %s (conditions and code of the generated charts only '
                              'call probes)' % (k, type(ra.last_error).__name__, str(ra.last_error)[:200].replace('\n', ' ')), dict(wit, step=k))
                return
            break
        k += 1
    acc.count('conditions_evaluated_checked_side', evals)
    if evals >= 10:
        acc.count('runs_with_10plus_evaluations')
        acc.nontrivial((chart_digest(ch), len(script), failing))
        acc.sample(dict(states=len(ch['states']), steps=k, evaluations_checked=evals, evaluations_ignored=0, failing=failing,
                        timed=timed))


def shipped_case(acc, rnd, tier, case):
    T = TIERS[tier]
    path = rnd.choice(SHIPPED)
    text = open(os.path.join(REPO, path)).read()
    sc0 = import_from_yaml(text)
    events = sc0.events_for()
    floors = list(range(0, 6))
    ops = []
    for k in range(T['steps']):
        if rnd.random() < 0.6:
            name = rnd.choice(events + ['zz'])
            kw = {}
            if name == 'floorSelected':
                kw['floor'] = rnd.choice(floors)
            ops.append(('queue', name, kw))
        if rnd.random() < 0.5:
            ops.append(('clock', rnd.choice((0.5, 1, 1, 2, 5, 10))))
        ops.append(('step',))
    sides = []
    for ignore in (False, True):
        sc = import_from_yaml(text)
        log = []
        it = Interpreter(sc, ignore_contract=ignore)
        it.attach(lambda m, log=log: log.append(('M', m.name, dict(m.data))))
        sides.append((log, it, Runner(it, None, log=log)))
    (la_, ia, ra), (lb_, ib, rb) = sides
    acc.count('shipped_chart_runs')
    k = 0
    for op in ops:
        if op[0] == 'queue':
            ia.queue(op[1], **op[2])
            ib.queue(op[1], **op[2])
            continue
        if op[0] == 'clock':
            ra.apply(op)
            rb.apply(op)
            continue
        oa = ra.apply(op)
        sa = meta_stream(la_)
        ob = rb.apply(op)
        sb = meta_stream(lb_)
        if ob[0] == 'raise' and isinstance(rb.last_error, ContractError):
            acc.violation('C09:contract-error-while-ignored', '%s step %d: %s raised with ignore_contract=True' %
                          (path, k, type(rb.last_error).__name__), dict(chart=path, ops=ops, step=k))
            return
        if oa[0] == 'raise' and isinstance(ra.last_error, ContractError):
            acc.count('runs_cut_at_contract_error')
            break
        d = first_difference(oa, ob)
        if d is None and sa != sb:
            d = 'meta-event streams differ'
        if d is not None:
            acc.violation('C09:runs-differ', '%s step %d: checked vs ignore_contract=True: %s' % (path, k, d),
                          dict(chart=path, ops=ops, step=k))
            return
        acc.count('steps_compared')
        acc.count('shipped_steps_compared')
        k += 1
    if k >= 10:
        acc.nontrivial((path, tuple(map(repr, ops))))
