"""C14 – clocks are monotonic and faithful (DESIGN §4 C14): scripted time source + exact rational model."""
from fractions import Fraction as F

from ..common import import_sismic

import_sismic()
import sismic.clock.clock as clockmod  # noqa: E402
from sismic.clock import SimulatedClock, SynchronizedClock  # noqa: E402
from sismic.interpreter import Interpreter  # noqa: E402
from sismic.model import BasicState, CompoundState, Statechart, Transition  # noqa: E402

PID = 'C14'
LEVEL = 'exploration'
RULE = ('One case = a random sequence of 30-60 clock operations (start, stop, speed=x, time=v, read, real time += dt) with '
        'sismic.clock.clock.time replaced by a scripted source. Mode (i): real time advances only between operations - every '
        'reading must equal the exact rational model (sum of speed x real time over started intervals + assignments), be '
        'monotonic, stand still while stopped; an assignment below the current value must raise ValueError and change nothing, '
        'an accepted one must take effect exactly. Mode (ii): the scripted source also advances on every call - monotonicity, '
        'stillness while stopped and lower/upper bounds. Mode (iii): a SynchronizedClock must equal the followed interpreter\'s '
        'time after every step and between steps. Non-trivial = distinct sequences containing a speed change while running, '
        'an assignment while running and a rejected assignment; start/stop/speed raising on a legal call is a violation; a SynchronizedClock is '
        'also read while the followed interpreter delivers meta-events (it shows the time of the step under way from step started on); '
        'never-started clocks take exact rationals and large magnitudes exactly.')
ASSUMPTIONS = ['real-time values, speeds and assigned values are dyadic rationals, so the clock\'s float arithmetic is exact in mode (i)',
               'mode (ii): the value is only determined up to the real time spent inside an operation']
REQUIRED_COUNTERS = ['synchronized_reads_during_a_step', 'readings_exact_non_float', 'chained_interpreter_steps', 'followed_clock_replaced', 'readings_exact', 'readings_bounded', 'rejected_assignments', 'accepted_assignments_running',
                     'speed_changes_running', 'stopped_stillness_checks', 'synchronized_checks']


def plan(tier):
    return dict(cases=40000 if tier == 'quick' else 600000, shards=16, timeout=600 if tier == 'quick' else 3600)


class Source:
    def __init__(self, start, tick=0):
        self.now = start
        self.tick = tick
        self.calls = 0

    def __call__(self):
        self.calls += 1
        self.now += self.tick
        return self.now


def exact_big_case(acc, rnd):
    """A manually driven (never started) clock: accepted assignments take effect *exactly*, whatever the numeric type."""
    c = SimulatedClock()
    value = F(0)
    ops = []
    for k in range(rnd.randint(8, 20)):
        op = rnd.choice(('set', 'set', 'inc', 'speed', 'stop', 'low'))
        if op == 'set':
            v = value + rnd.choice((F(1, 10), F(1, 3), 1, 2 ** 53 + 1, 10 ** 20, F(7, 1000)))
            x = int(v) if v.denominator == 1 else v
            c.time = x
            value = F(v)
        elif op == 'inc':
            d = rnd.choice((1, F(1, 10)))
            c.time += d
            value += F(d)
        elif op == 'speed':
            c.speed = rnd.choice((0, 1, 2, 3))
        elif op == 'stop':
            c.stop()
        else:
            try:
                c.time = (value - F(1, 10 ** 6))
                acc.violation('C14:backwards-assignment-accepted', 'assignment of a value 1e-6 below the current one (%r) was accepted'
                              % (value,), dict(ops=ops))
                return
            except ValueError:
                acc.count('rejected_assignments')
        ops.append(op)
        got = c.time
        acc.count('readings_exact_non_float')
        if F(got) != value:
            acc.violation('C14:reading-differs', 'stopped clock, after %r: shows %r, the accepted assignments add up to %r' % (op, got, value),
                          dict(ops=ops))
            return
    acc.klass('exact_big', tuple(ops))


def run_case(acc, rnd, tier, case):
    r = rnd.random()
    if r < 0.08:
        return exact_big_case(acc, rnd)
    if r < 0.6:
        exact_case(acc, rnd)
    elif r < 0.85:
        bounded_case(acc, rnd)
    else:
        sync_case(acc, rnd)


DTS = (0, 0.125, 0.25, 0.5, 1, 1, 2, 3.5, 10)
SPEEDS = (0, 0.5, 1, 1, 2, 3, 0.25)


def exact_case(acc, rnd):
    src = Source(rnd.choice((0.0, 1000.0, 123456.5)))
    old = clockmod.time
    clockmod.time = src
    try:
        c = SimulatedClock()
        value, speed, playing = F(0), F(1), False
        last = None
        ops = []
        feats = set()
        n = rnd.randint(30, 60)
        for k in range(n):
            op = rnd.choice(('adv', 'adv', 'read', 'read', 'start', 'stop', 'speed', 'set', 'set'))
            if op == 'adv':
                dt = rnd.choice(DTS)
                src.now += dt
                if playing:
                    value += speed * F(dt)
                ops.append(('real+=', dt))
                continue
            if op in ('start', 'stop', 'speed'):
                s = rnd.choice(SPEEDS) if op == 'speed' else None
                try:
                    if op == 'start':
                        c.start()
                    elif op == 'stop':
                        c.stop()
                    else:
                        c.speed = s
                except Exception as e:      # noqa
                    acc.violation('C14:legal-operation-raised', '%s%s on a clock (started: %r) raised %s: %s'
                                  % (op, '' if s is None else ' = %r' % s, playing, type(e).__name__, str(e)[:200]), dict(ops=ops))
                    return
            if op == 'start':
                playing = True
            elif op == 'stop':
                playing = False
            elif op == 'speed':
                speed = F(s)
                if playing:
                    feats.add('speed_change_running')
                    acc.count('speed_changes_running')
            elif op == 'set':
                cur = value
                v = float(cur) + rnd.choice((-1, -0.125, 0, 0.125, 1, 5, -100))
                ops.append(('time=', v))
                try:
                    c.time = v
                    accepted = True
                except ValueError:
                    accepted = False
                if F(v) < cur:
                    acc.count('rejected_assignments')
                    feats.add('rejected_assignment')
                    if accepted:
                        acc.violation('C14:backwards-assignment-accepted', 'time=%r accepted while the clock shows %r'
                                      % (v, float(cur)), dict(ops=ops[-30:]))
                        return
                else:
                    if not accepted:
                        acc.violation('C14:forward-assignment-rejected', 'time=%r rejected while the clock shows %r'
                                      % (v, float(cur)), dict(ops=ops[-30:]))
                        return
                    value = F(v)
                    if playing:
                        feats.add('assignment_running')
                        acc.count('accepted_assignments_running')
            if op != 'set':
                ops.append((op, float(speed) if op == 'speed' else None))
            # every operation is followed by a reading
            got = c.time
            acc.count('readings_exact')
            if F(got) != value:
                acc.violation('C14:reading-differs', 'after %r the clock shows %r, speed x elapsed real time + assignments gives %r '
                              '(playing=%r speed=%r)' % (ops[-1], got, float(value), playing, float(speed)), dict(ops=ops[-30:]))
                return
            if last is not None and got < last:
                acc.violation('C14:went-backwards', 'reading %r after %r' % (got, last), dict(ops=ops[-30:]))
                return
            if not playing and last is not None and op in ('read',) and got != last:
                acc.violation('C14:moved-while-stopped', 'reading changed from %r to %r while stopped' % (last, got), dict(ops=ops[-30:]))
                return
            if not playing:
                acc.count('stopped_stillness_checks')
            last = got
        if len(feats) == 3:
            acc.nontrivial(tuple(map(repr, ops)), cls='exact')
            acc.sample(dict(mode='exact', ops=ops[:14]))
    finally:
        clockmod.time = old


def bounded_case(acc, rnd):
    tick = rnd.choice((0.001, 0.125, 0.015625))
    src = Source(rnd.choice((0.0, 1000.0)), tick=tick)
    old = clockmod.time
    clockmod.time = src
    try:
        c = SimulatedClock()
        lo = hi = 0.0
        speed, playing = 1.0, False
        last = None
        ops = []
        for k in range(rnd.randint(30, 60)):
            op = rnd.choice(('adv', 'adv', 'read', 'read', 'start', 'stop', 'speed', 'set'))
            t_in = src.now
            s_before, p_before = speed, playing
            if op == 'adv':
                dt = rnd.choice(DTS)
                src.now += dt
                if playing:
                    lo += speed * dt
                    hi += speed * dt
                ops.append(('real+=', dt))
                continue
            if op in ('start', 'stop', 'speed'):
                s = rnd.choice(SPEEDS) if op == 'speed' else None
                try:
                    if op == 'start':
                        c.start()
                    elif op == 'stop':
                        c.stop()
                    else:
                        c.speed = s
                except Exception as e:      # noqa
                    acc.violation('C14:legal-operation-raised', '%s%s on a clock (started: %r) raised %s: %s'
                                  % (op, '' if s is None else ' = %r' % s, playing, type(e).__name__, str(e)[:200]), dict(ops=ops))
                    return
            if op == 'start':
                playing = True
            elif op == 'stop':
                playing = False
            elif op == 'speed':
                speed = s
            elif op == 'set':
                v = hi + rnd.choice((0.5, 1, 5, 50))         # clearly above the current value: must be accepted
                try:
                    c.time = v
                except ValueError:
                    acc.violation('C14:forward-assignment-rejected', 'time=%r rejected although the clock shows at most %r' % (v, hi),
                                  dict(ops=ops[-30:], tick=tick))
                    return
                lo = hi = v
            ops.append((op, speed if op == 'speed' else None))
            spent = src.now - t_in
            if p_before or playing:
                hi += max(s_before, speed) * spent
            got = c.time
            spent2 = tick
            if playing:
                hi += speed * spent2
            acc.count('readings_bounded')
            eps = 1e-9 * (1 + abs(hi))
            if not (lo - eps <= got <= hi + eps):
                acc.violation('C14:reading-out-of-bounds', 'after %r the clock shows %r, bounds [%r, %r]' % (ops[-1], got, lo, hi),
                              dict(ops=ops[-30:], tick=tick))
                return
            if last is not None and got < last:
                acc.violation('C14:went-backwards', 'reading %r after %r' % (got, last), dict(ops=ops[-30:], tick=tick))
                return
            if not playing and not p_before and last is not None and op == 'read' and got != last:
                acc.violation('C14:moved-while-stopped', 'reading changed from %r to %r while stopped' % (last, got),
                              dict(ops=ops[-30:], tick=tick))
                return
            if not playing:
                acc.count('stopped_stillness_checks')
            last = got
        acc.klass('bounded', tuple(map(repr, ops)))
    finally:
        clockmod.time = old


def sync_case(acc, rnd):
    sc = Statechart('s')
    sc.add_state(CompoundState('root', initial='a'), None)
    sc.add_state(BasicState('a'), 'root')
    sc.add_state(BasicState('b'), 'root')
    sc.add_transition(Transition('a', 'b', event='go'))
    sc.add_transition(Transition('b', 'a', event='go'))
    it = Interpreter(sc)
    syn = SynchronizedClock(it)
    last_step_time = it.time
    # what the synchronized clock shows while the followed interpreter is delivering meta-events (that is when a bound property
    # statechart reads it): the time of the step under way, from 'step started' on
    during = []
    it.attach(lambda m: during.append((m.name, syn.time, m.data.get('time'))))
    # a chain: it2's own clock is synchronised with `it`, and a third clock follows it2
    it2 = Interpreter(sc, clock=SynchronizedClock(it))
    syn2 = SynchronizedClock(it2)
    last2 = it2.time
    for k in range(rnd.randint(10, 30)):
        op = rnd.choice(('clock', 'queue', 'step', 'step', 'newclock'))
        if op == 'newclock':
            # the followed interpreter gets another clock (possibly showing an earlier time): the synchronized clock
            # still has to show the time of the interpreter's last step, whatever that is
            nc = SimulatedClock()
            nc.time = rnd.choice((0, 0, 1, 50))
            it.clock = nc
            acc.count('followed_clock_replaced')
        elif op == 'clock':
            it.clock.time += rnd.choice(DTS)
        elif op == 'queue':
            it.queue('go')
        else:
            t0 = it.clock.time
            del during[:]
            step = it.execute_once()
            last_step_time = t0
            acc.count('synchronized_reads_during_a_step', len(during))
            bad = [d for d in during if d[1] != t0 or (d[0] == 'step started' and d[2] != t0)]
            if bad:
                acc.violation('C14:synchronized-clock', "while '%s' of the step at %r was being delivered, a SynchronizedClock on that "
                              'interpreter showed %r%s' % (bad[0][0], t0, bad[0][1],
                                                           '' if bad[0][0] != 'step started' else " (the meta-event says %r)" % (bad[0][2],)), {})
                return
            if step is not None and step.time != t0:
                acc.violation('C14:synchronized-clock', 'step time %r, clock %r' % (step.time, t0), {})
                return
        if rnd.random() < 0.3:
            t2 = it2.clock.time          # = time of the last step of `it`
            it2.queue('go')
            it2.execute_once()
            last2 = t2
            acc.count('chained_interpreter_steps')
        acc.count('synchronized_checks')
        if syn2.time != last2:
            acc.violation('C14:synchronized-clock', 'a clock following interpreter M (whose own clock follows R) shows %r; the last '
                          'step of M was at %r (R is at %r)' % (syn2.time, last2, it.time), {})
            return
        if syn.time != last_step_time:
            acc.violation('C14:synchronized-clock', 'SynchronizedClock shows %r, the last step of the followed interpreter was at %r '
                          '(after %s)' % (syn.time, last_step_time, op), {})
            return
    acc.klass('sync', k)
