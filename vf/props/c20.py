"""C20 – AsyncRunner: no step unreported, no event lost, orderly lifecycle (DESIGN §4 C20).

Mode (a) controlled scheduler (vf.sched): seeded interleavings at interposed synchronisation points, logical
deadlock detection; mode (b) free-running stress with real threads.  Both feed the same history checker."""
import sys
import threading
import time as real_time

from ..common import Inconclusive, import_sismic
from ..sched import Abort, BisectShim, CEvent, CLock, LineYields, Sched, ThreadProxy, TimeShim, YList

import_sismic()
import sismic.interpreter.default as DD  # noqa: E402
import sismic.runner.runner as RR  # noqa: E402
from sismic.interpreter import Interpreter  # noqa: E402
from sismic.model import (BasicState, CompoundState, Event, FinalState, Statechart, Transition)  # noqa: E402
from sismic.runner import AsyncRunner  # noqa: E402

PID = 'C20'
LEVEL = 'exploration'
RULE = ('One case = one scenario (1-3 client threads calling queue/pause/unpause/stop/wait around an AsyncRunner on a small '
        'event-consuming chart, execute_all on/off, optional final event) run under one seeded schedule of the controlled '
        'scheduler (strategies: uniform random, sticky, PCT-style priorities), or - 1 case in 12 - free-running with real '
        'threads. The history recorded at the client boundary (call/return of every client operation, every execute_once '
        'return in the runner thread, every documented hook) is checked: reported steps == executed steps, one per cycle; '
        'every queued event consumed exactly once, per-client FIFO, due order, bounded progress; before_run/after_run once; '
        '<= 1 cycle started after pause() returned; nothing after stop() returned; stop() returns (no logical deadlock); runner '
        'ends by itself when final.  Non-trivial = distinct interleavings (digest of the context-switch sequence) in which the '
        'runner was pre-empted at least once between two client operations.  Scenario kinds also: timed (the chart sends delayed internal events, a '
        'client moves the clock mid-step; the step handed back is about the event announced as consumed) and bound pair (two runners on '
        'interpreters bound to each other: no logical deadlock, exactly-once in-order delivery); a cycle begun after pause() returned counts '
        'as under way only if the runner had looked at the pause flag since the previous cycle.')
ASSUMPTIONS = ['clients other than the one calling start() begin after start() has returned (start() is not raced against stop())',
               'controlled mode explores interleavings at the interposed points only (Event operations, thread start/join/is_alive, '
               'sleep, execute_once boundaries, hooks, bisect/insert gap, queue list mutators)',
               'liveness is restated as bounded progress: every due event is consumed within pending+3 cycles after the clients stop',
               'the former known findings queue-insert-preempted and stop-then-pause-deadlock are repaired (see known_findings.json); their mechanism classifiers are kept so that a regression is named precisely']
REQUIRED_COUNTERS = ['bound_pair_deliveries', 'timed_schedules_checked', 'clock_moved_while_internal_event_pending', 'cycles_begun_after_pause_returned', 'overlapping_stop_scenarios', 'line_level_schedules', 'schedules_run', 'schedules_completed', 'distinct_interleavings', 'cycles_observed', 'events_consumed',
                     'pauses_observed_mid_cycle', 'stops_while_paused', 'runner_ended_by_final', 'stress_runs',
                     'client_preempted_between_bisect_and_insert', 'execute_all_schedules']


def plan(tier):
    return dict(cases=5000 if tier == 'quick' else 60000, shards=16, timeout=900 if tier == 'quick' else 3600)


def chart(timed=False, sends=False):
    """timed: consuming x sends a delayed internal event t (consumed by a self-loop); sends: consuming x sends the
    external event y (for a bound peer)."""
    sc = Statechart('t')
    sc.add_state(CompoundState('root', initial='a'), None)
    sc.add_state(BasicState('a'), 'root')
    sc.add_state(BasicState('b'), 'root')
    sc.add_state(FinalState('f'), 'root')
    act = (lambda d: "send('t', delay=%d, u=uid())" % d) if timed else (lambda d: "send('y', u=uid())") if sends else (lambda d: None)
    sc.add_transition(Transition('a', 'b', event='x', action=act(5)))
    sc.add_transition(Transition('b', 'a', event='x', action=act(3)))
    if timed:
        sc.add_transition(Transition('a', 'a', event='t'))
        sc.add_transition(Transition('b', 'b', event='t'))
    sc.add_transition(Transition('a', 'f', event='fin'))
    sc.add_transition(Transition('b', 'f', event='fin'))
    return sc


BIG = 1000.0
LINES = LineYields()


def line_functions():
    fs = []
    for n in ('start', 'stop', 'pause', 'unpause', 'wait', 'execute', '_run'):
        if hasattr(AsyncRunner, n):
            fs.append(getattr(AsyncRunner, n))
    for n in ('queue', '_queue_event', '_select_event', 'execute_once', '_raise_event'):
        if hasattr(Interpreter, n):
            fs.append(getattr(Interpreter, n))
    return fs


def gen_scenario(rnd):
    """Client programs as data.  ops: ('queue', uid, delay) ('pause',) ('unpause',) ('idle', n) ('stop',)"""
    kind = rnd.choice(('events', 'events', 'lifecycle', 'lifecycle', 'lifecycle', 'lifecycle', 'final', 'mixed', 'timed', 'timed'))
    nclients = rnd.choice((1, 2, 2, 3)) if kind != 'lifecycle' else rnd.choice((2, 2, 3))
    uid = [0]

    def q(delays):
        uid[0] += 1
        return ('queue', uid[0], rnd.choice(delays))
    progs = []
    for c in range(nclients):
        ops = []
        n = rnd.randint(2, 6)
        for _ in range(n):
            r = rnd.random()
            if kind == 'events' and r < 0.15:
                # one call of queue() with several events that have delays of their own
                ops.append(('queueN', [q((0, 5, 10))[1:] for _ in range(rnd.randint(2, 3))]))
            elif kind == 'events':
                ops.append(q((0, 0, 5, 5, 10)) if r < 0.8 else ('idle', rnd.randint(1, 3)))
            elif kind == 'timed':
                # the chart sends delayed internal events; one client moves the clock while the runner is stepping
                if r < 0.3 and c == 0:
                    ops.append(('clock', rnd.choice((1, 2, 3, 5))))
                elif c > 0 and r < 0.2:
                    ops.append(('pause',))          # a chart that keeps sending events to itself must honour a pause as well
                elif c > 0 and r < 0.35:
                    ops.append(('unpause',))
                elif r < 0.85:
                    ops.append(q((0, 0, 0, 5)))
                else:
                    ops.append(('idle', rnd.randint(1, 3)))
            elif kind == 'lifecycle':
                if r < 0.04:
                    ops.append(('start-again',))        # refused (already started / stopped): and changes nothing
                elif r < 0.3:
                    ops.append(('pause',))
                elif r < 0.55:
                    ops.append(('unpause',))
                elif r < 0.8:
                    ops.append(q((0, 0, 5)))
                else:
                    ops.append(('idle', rnd.randint(1, 3)))
            else:
                if r < 0.55:
                    ops.append(q((0, 0, 5, 10)))
                elif r < 0.7:
                    ops.append(('pause',))
                elif r < 0.85:
                    ops.append(('unpause',))
                else:
                    ops.append(('idle', rnd.randint(1, 3)))
        progs.append(ops)
    extra_stop = kind == 'lifecycle' and rnd.random() < 0.5       # a second client also calls stop() (stop || pause race)
    if extra_stop and nclients >= 2:
        progs[1].append(('stop',))
        # ... while the other clients are still pausing / unpausing (a pause() that lands inside that stop())
        for c in range(nclients):
            if c != 1:
                progs[c] += [rnd.choice((('pause',), ('pause',), ('unpause',))) for _ in range(rnd.randint(1, 3))]
    pre_queued = [q((0, 5, 10)) for _ in range(rnd.randint(0, 3))]       # queued before start()
    return dict(kind=kind, progs=progs, final=(kind == 'final'), execute_all=rnd.random() < 0.35, pre_queued=pre_queued,
                interval=0.0,
                # the main client does not wait for the others before it stops: its stop() may overlap another client's
                impatient=(extra_stop and rnd.random() < 0.6),
                # when the chart becomes final the main client calls stop() instead of wait(): stop() meets a runner that
                # is ending by itself
                stop_on_final=(kind == 'final' and rnd.random() < 0.5))


class World:
    """One instrumented runner + interpreter."""

    UID = [100000]

    def __init__(self, scn, H, S=None, label=''):
        self.H, self.S, self.scn, self.label = H, S, scn, label

        def uid():
            World.UID[0] += 1
            return World.UID[0]
        it = Interpreter(chart(timed=scn['kind'] == 'timed', sends=scn['kind'] == 'pair'), initial_context=dict(uid=uid))
        self.it = it
        world = self

        def on_meta(m):
            if m.name == 'event sent':
                H.append(('sent', m.event.data.get('u'), getattr(m.event, 'delay', 0)))
            elif m.name == 'event consumed':
                H.append(('meta-consumed', m.event.data.get('u')))
        it.attach(on_meta)
        orig = it.execute_once

        def execute_once():
            if S is not None:
                S.yield_('before execute_once')
            step = orig()
            H.append(('exec', step.event.data.get('u') if (step is not None and step.event is not None) else None, step is not None,
                      id(step), threading.current_thread().name if S is None else S.name(), it.time,
                      step is not None and isinstance(step.event, DD.InternalEvent)))
            world.steps.append(step)
            if S is not None:
                S.yield_('after execute_once')
            return step
        it.execute_once = execute_once
        self.steps = []
        self.cycles = [0]
        self.started = False

        class R(AsyncRunner):
            def __del__(self):
                pass        # AsyncRunner.__del__ calls stop(): garbage collection must not act on an abandoned schedule

            def before_run(self):
                H.append(('hook', 'before_run'))
                if S is not None:
                    S.yield_('hook before_run')

            def after_run(self):
                H.append(('hook', 'after_run'))

            def before_execute(self):
                H.append(('hook', 'before_execute'))
                if S is not None:
                    S.yield_('hook before_execute')

            def after_execute(self, steps):
                H.append(('hook', 'after_execute', [id(s) for s in steps]))
                world.cycles[0] += 1
                if S is not None:
                    S.yield_('hook after_execute')
        self.r = R(it, interval=scn['interval'], execute_all=scn['execute_all'])
        if S is not None:
            for a in ('_unpaused', '_stop', '_thread', '_run'):
                if not hasattr(self.r, a):
                    raise Inconclusive('AsyncRunner.%s not found: anchor cannot be instrumented' % a)
            self.r._unpaused = CEvent(S, 'unpaused' + label, H)
            self.r._stop = CEvent(S, 'stop' + label, H)
            self.proxy = ThreadProxy(S, self.r._run, 'runner' + label)
            self.r._thread = self.proxy
            for a, v in list(vars(it).items()):
                if type(v).__name__ in ('RLock', 'lock') or type(v).__module__ == '_thread':
                    setattr(it, a, CLock(S, a + label, H))       # a real lock would block a managed thread behind the scheduler's back
            if isinstance(getattr(it, '_external_queue', None), list):
                it._external_queue = YList(it._external_queue).bind(S, 'external' + label, H)
                self.ylist = True
            else:
                self.ylist = False
            if scn['kind'] in ('timed', 'pair') and isinstance(getattr(it, '_internal_queue', None), list):
                it._internal_queue = YList(it._internal_queue).bind(S, 'internal' + label, H)

    def finished(self):
        return self.proxy.finished


def client_body(world, cname, ops, is_main, others_done, S):
    H, r, it, scn = world.H, world.r, world.it, world.scn

    def call(op, *arg):
        H.append(('call', cname, op) + arg)

    def ret(op, *arg):
        H.append(('ret', cname, op) + arg)

    def y(label):
        if S is not None:
            S.yield_(label)
        else:
            real_time.sleep(0)

    def body():
        if is_main:
            for op in scn['pre_queued']:
                call('queue', op[1], op[2])
                it.queue(Event('y', u=op[1], delay=op[2]) if op[2] else Event('y', u=op[1]))
                ret('queue', op[1])
            call('start')
            r.start()
            ret('start')
            world.started = True
        elif S is not None:
            S.yield_('await start', blocked_on=lambda: world.started)
        else:
            while not world.started:
                real_time.sleep(0.0002)
        for op in ops:
            y('client between ops')
            if op[0] == 'queue':
                call('queue', op[1], op[2])
                name = 'x' if op[1] % 2 else 'y'
                it.queue(Event(name, u=op[1], delay=op[2]) if op[2] else Event(name, u=op[1]))
                ret('queue', op[1])
            elif op[0] == 'queueN':
                evs = []
                for (u, d) in op[1]:
                    call('queue', u, d)
                    evs.append(Event('x' if u % 2 else 'y', u=u, delay=d) if d else ('x' if u % 2 else 'y'))
                # (events given by name take the keyword parameters of the call: here only the uid of the last nameless one)
                named = [u for (u, d) in op[1] if not d]
                if len(named) > 1:
                    evs = [Event('x' if u % 2 else 'y', u=u, delay=d) if d else Event('x' if u % 2 else 'y', u=u) for (u, d) in op[1]]
                    it.queue(*evs)
                elif named:
                    it.queue(*evs, u=named[0])
                else:
                    it.queue(*evs)
                for (u, d) in op[1]:
                    ret('queue', u)
            elif op[0] == 'pause':
                call('pause')
                r.pause()
                ret('pause')
            elif op[0] == 'unpause':
                call('unpause')
                r.unpause()
                ret('unpause')
            elif op[0] == 'stop':
                call('stop')
                r.stop()
                ret('stop')
            elif op[0] == 'start-again':
                call('start-again')
                try:
                    r.start()
                    ret('start-again', 'accepted')
                except RuntimeError:
                    ret('start-again', 'refused')
            elif op[0] == 'clock':
                it.clock.time += op[1]
                H.append(('clock-moved', op[1]))
            elif op[0] == 'idle':
                for _ in range(op[1]):
                    y('client idle')
        if not is_main:
            return
        # ---- final phase of the main client: wait for the others, then drain and stop (or wait for final) ----
        if scn.get('impatient'):
            call('stop')
            r.stop()
            ret('stop')
            return
        if S is not None:
            S.yield_('await other clients', blocked_on=others_done)
        else:
            while not others_done():
                real_time.sleep(0.0005)
        H.append(('drain-begins', cname))
        call('unpause')
        r.unpause()
        ret('unpause')
        it.clock.time = BIG
        H.append(('clock', BIG))
        if scn['final']:
            call('queue', 0, 0)
            it.queue(Event('fin', u=0))
            ret('queue', 0)
            if scn.get('stop_on_final'):
                call('stop')
                r.stop()
                ret('stop')
            else:
                call('wait')
                r.wait()
                ret('wait')
        else:
            pending = (sum(1 for h in H if (h[0] == 'call' and h[2] == 'queue') or h[0] == 'sent')
                       - sum(1 for h in H if h[0] == 'exec' and h[1] is not None))
            target = world.cycles[0] + pending + 3
            cond = lambda: world.cycles[0] >= target or (S is not None and world.finished())     # noqa: E731
            if S is not None:
                S.yield_('await cycles', blocked_on=cond)
            else:
                t0 = real_time.time()
                while not cond() and real_time.time() - t0 < 20 and r.running:
                    real_time.sleep(0.0005)
                if not cond():
                    # a wall-clock wait is never a verdict: on a loaded machine the runner may simply be slow
                    H.append(('drain-wait-timed-out', cname))
            H.append(('drain-ends', cname))
            call('stop')
            r.stop()
            ret('stop')
    return body


# ---- history checker -------------------------------------------------------------------------------------------------
def check_history(acc, scn, H, world, verdict, S, wit):
    """Returns True if nothing was reported."""
    def V(key, msg):
        acc.violation('C20:' + key, msg, wit)
        return False
    hooks = [h for h in H if h[0] == 'hook']
    execs = [h for h in H if h[0] == 'exec']
    # (1) reporting -------------------------------------------------------------------------------------
    reported = [i for h in hooks if h[1] == 'after_execute' for i in h[2]]
    produced = [h[3] for h in execs if h[2]]
    if verdict == 'done' and reported != produced:
        return V('step-unreported-or-misreported', 'execute_once produced %d macro steps, after_execute received %d (%s)' %
                 (len(produced), len(reported), 'a prefix only' if reported == produced[:len(reported)] else 'different/reordered steps'))
    if not scn['execute_all']:
        n = 0
        for h in H:
            if h[0] == 'hook' and h[1] == 'before_execute':
                n = 0
            elif h[0] == 'exec' and h[2]:
                n += 1
                if n > 1:
                    return V('two-steps-in-one-cycle', 'two macro steps were executed in one cycle although execute_all is off')
    # (3) lifecycle ----------------------------------------------------------------------------------------
    if any(h[0] == 'ret' and h[2] == 'start-again' and h[3] == 'accepted' for h in H):
        return V('second-start-accepted', 'start() on a runner that had been started already did not raise')
    names = [h[1] for h in hooks]
    if names.count('before_run') > 1 or (names and names[0] != 'before_run'):
        return V('before-run', 'before_run called %d times / not first: %r' % (names.count('before_run'), names[:4]))
    if names.count('after_run') > 1:
        return V('after-run-twice', 'after_run called %d times' % names.count('after_run'))
    if verdict == 'done':
        started = any(h[0] == 'ret' and h[2] == 'start' for h in H)
        if started and names.count('after_run') != 1:
            return V('after-run-missing', 'runner thread ended, after_run called %d times' % names.count('after_run'))
        if names and names[-1] != 'after_run':
            return V('hook-after-after-run', 'hooks after after_run: %r' % names[-3:])
    # nothing after the first return of stop()
    for i, h in enumerate(H):
        if h[0] == 'ret' and h[2] in ('stop', 'wait'):
            late = [x for x in H[i + 1:] if x[0] in ('hook', 'exec')]
            if late:
                return V('activity-after-stop', '%s() of %s returned, then the runner still did %r' % (h[2], h[1], late[:3]))
            break
    # pause: at most the cycle under way
    for i, h in enumerate(H):
        if h[0] == 'ret' and h[2] == 'pause':
            # the pause must not overlap any unpause()/stop()/start() call (those may legitimately take effect after it)
            i_call = max(j for j in range(i) if H[j][0] == 'call' and H[j][1] == h[1] and H[j][2] == 'pause')
            inflight = set()
            for x in H[:i_call]:
                if x[0] == 'call' and x[2] in ('unpause', 'stop', 'start'):
                    inflight.add(x[1])
                elif x[0] == 'ret' and x[2] in ('unpause', 'stop', 'start'):
                    inflight.discard(x[1])
            if inflight or any(x[0] == 'call' and x[2] in ('unpause', 'stop', 'start') for x in H[i_call:i]):
                continue
            n = 0
            for j in range(i + 1, len(H)):
                x = H[j]
                if x[0] == 'call' and x[2] in ('unpause', 'stop', 'start'):
                    break
                if x[0] == 'hook' and x[1] == 'before_execute':
                    n += 1
                    if S is not None:
                        # "the cycle already under way": the runner had looked at the pause flag for this cycle (and found it
                        # clear of any pause) before pause() took effect.  A cycle begun without any look at the flag since
                        # the previous cycle ended / before_run returned was not under way.
                        k = max((q for q in range(j) if H[q][0] == 'hook' and H[q][1] in ('before_run', 'after_execute')), default=None)
                        looked = k is not None and any(y[0] == 'flag' and y[1].startswith('unpaused') and y[2] == 'passed'
                                                       for y in H[k:j])
                        acc.count('cycles_begun_after_pause_returned')
                        if not looked:
                            return V('cycle-not-under-way-after-pause', 'pause() had returned; the runner then began a cycle '
                                     'without having looked at the pause flag since %s' % (H[k][1] if k is not None else 'it started'))
            acc.count('pause_windows_checked')
            if n >= 1:
                acc.count('pauses_observed_mid_cycle')
            if n > 1:
                return V('cycles-while-paused', 'pause() had returned and no unpause()/stop() had been called, yet %d cycles were started' % n)
    # (2) events ---------------------------------------------------------------------------------------------
    queued = {}
    for h in H:
        if h[0] == 'call' and h[2] == 'queue':
            queued[h[3]] = (h[1], h[4])          # uid -> (client, delay)
    for h in H:
        if h[0] == 'sent':
            queued[h[1]] = ('chart', h[2])
    consumed = [h[1] for h in execs if h[1] is not None]
    announced = [h[1] for h in H if h[0] == 'meta-consumed']
    if verdict == 'done' and announced != consumed:
        return V('consumed-event-differs-from-step-event', "'event consumed' named the events %r, the macro steps handed back "
                 'processed %r' % (announced[-6:], consumed[-6:]))
    timed = scn['kind'] == 'timed'
    from collections import Counter
    cnt = Counter(consumed)
    dup = [u for u, c in cnt.items() if c > 1]
    if dup:
        return V('event-consumed-twice', 'events %r were consumed more than once' % dup[:5])
    unknown = [u for u in consumed if u not in queued]
    if unknown:
        return V('unknown-event-consumed', 'events %r were never queued' % unknown[:5])
    # per-client FIFO for equal delay (the clock is constant until the drain, so due = delay)
    pos = {u: i for i, u in enumerate(consumed)}
    byclient = {}
    for u, (c, d) in queued.items():
        byclient.setdefault((c, d), []).append(u)
    for (c, d), us in byclient.items():
        got = [u for u in us if u in pos]
        if [pos[u] for u in got] != sorted(pos[u] for u in got):
            mech = next((m for m in (classify_misorder(H, u, queued) for u in got) if m), None)
            if mech:
                acc.violation('queue-insert-preempted', 'client %s queued %r (delay %r) in that order; consumed in order %r: %s' %
                              (c, us, d, sorted(got, key=lambda u: pos[u]), mech), wit)
                return False
            return V('client-fifo', 'client %s queued %r (delay %r) in that order; consumed in order %r' %
                     (c, us, d, sorted(got, key=lambda u: pos[u])))
    drain_i = next((i for i, h in enumerate(H) if h[0] == 'clock'), None)
    if timed:
        # the clock moves: an event queued with delay d after a step that began at time T is due at T + d or later
        last_t = 0
        floor = {}
        for h in H:
            if h[0] == 'exec':
                last_t = h[5]
                u = h[1]
                if u is not None and u in floor and h[5] < floor[u]:
                    return V('consumed-before-due', 'event %r was queued with delay %r when the interpreter time was >= %r, and '
                             'was consumed by a step at time %r' % (u, queued[u][1], floor[u] - queued[u][1], h[5]))
            elif h[0] == 'call' and h[2] == 'queue':
                floor[h[3]] = last_t + h[4]
        acc.count('timed_schedules_checked')
        if any(h[0] == 'clock-moved' for h in H[:drain_i or 0]) and any(h[0] == 'sent' for h in H[:drain_i or 0]):
            acc.count('clock_moved_while_internal_event_pending')
    if drain_i is not None and not timed:
        before_drain = [h[1] for h in H[:drain_i] if h[0] == 'exec' and h[1] is not None]
        early = [u for u in before_drain if queued[u][1] > 0]
        if early:
            return V('consumed-before-due', 'delayed events %r were consumed while the clock was still 0' % early[:5])
        in_drain = [h[1] for h in H[drain_i:] if h[0] == 'exec' and h[1] is not None and h[1] != 0]
        dues = [queued[u][1] for u in in_drain]
        if dues != sorted(dues):
            bad = next(i for i in range(1, len(dues)) if dues[i] < dues[i - 1])
            u = in_drain[bad]
            mech = classify_misorder(H, u, queued) or classify_misorder(H, in_drain[bad - 1], queued)
            if mech:
                acc.violation('queue-insert-preempted', 'event %r (due %r) was consumed after %r (due %r): %s' %
                              (u, dues[bad], in_drain[bad - 1], dues[bad - 1], mech), wit)
                return False
            return V('due-order', 'event %r (due %r) was consumed after %r (due %r) although both were due; consumption order %r'
                     % (u, dues[bad], in_drain[bad - 1], dues[bad - 1], list(zip(in_drain, dues))))
    drain_end = next((i for i, h in enumerate(H) if h[0] == 'drain-ends'), None)
    stopped_early = drain_end is not None and any(h[0] == 'call' and h[2] == 'stop' for h in H[:drain_end])
    if any(h[0] == 'drain-wait-timed-out' for h in H):
        acc.count('stress_progress_wait_timed_out')
        stopped_early = True
    if verdict == 'done' and not scn['final'] and drain_end is not None and not stopped_early:
        sent_in_drain = {h[1] for h in H[drain_i or 0:] if h[0] == 'sent'}     # (sent at time BIG with a delay: not due yet)
        missing = [u for u in queued if u not in cnt and u not in sent_in_drain]
        if missing:
            return V('event-lost-or-starved', 'events %r were queued and due, the runner cycled %d times afterwards, they were '
                     'never consumed' % (missing[:6], world.cycles[0]))
    if scn['final'] and verdict == 'done':
        if 0 in cnt:
            acc.count('runner_ended_by_final')
    acc.count('events_consumed', len(consumed))
    acc.count('cycles_observed', world.cycles[0])
    return True


def classify_misorder(H, u, queued):
    """Mechanism check for the known finding: was the queue() call of event u pre-empted between its bisect and its
    insert by another mutation of the same queue (pop by the runner, insert by another client)?"""
    i0 = next((i for i, h in enumerate(H) if h[0] == 'call' and h[2] == 'queue' and h[3] == u), None)
    i1 = next((i for i, h in enumerate(H) if h[0] == 'ret' and h[2] == 'queue' and h[3] == u), None)
    if i0 is None or i1 is None:
        return None
    client = H[i0][1]
    b = next((i for i in range(i0, i1) if H[i][0] == 'bisect-done' and H[i][1] == client), None)
    if b is None:
        return None
    ins = next((i for i in range(b, i1) if H[i][0] == 'queue-op' and H[i][2] == 'insert' and H[i][3] == client), i1)
    for h in H[b + 1:ins]:
        if h[0] == 'queue-op' and h[3] != client and h[2] in ('pop', 'insert', 'append'):
            return 'the queue() call of client %s was pre-empted between bisect and insert by a %s of %s' % (client, h[2], h[3])
        if h[0] == 'exec' and h[1] is not None:
            return 'the queue() call of client %s was pre-empted between bisect and insert while the runner consumed event %r' % (client, h[1])
    return None


def classify_deadlock(H, S, world):
    """Known finding 'stop-then-pause-deadlock': a pause() landed after stop() had set its flags."""
    dl = S.deadlock
    runner_waiting = dl.get('runner', '').startswith('blocked-wait unpaused')
    joiner = [n for n, w in dl.items() if w == 'blocked-join']
    if not (runner_waiting and joiner and world.r._stop.flag and not world.r._unpaused.flag):
        return None
    i_stop = next((i for i, h in enumerate(H) if h[0] == 'flag' and h[1] == 'stop' and h[2] == 'set'), None)
    clears = [i for i, h in enumerate(H) if h[0] == 'flag' and h[1] == 'unpaused' and h[2] == 'clear']
    sets_after = [i for i, h in enumerate(H) if h[0] == 'flag' and h[1] == 'unpaused' and h[2] == 'set' and i_stop is not None and i > i_stop]
    if i_stop is not None and clears and clears[-1] > i_stop and sets_after and clears[-1] > sets_after[-1]:
        return 'pause() by %s cleared the flag after stop() had set it' % H[clears[-1]][3]
    if i_stop is not None and clears and clears[-1] > i_stop and not sets_after:
        return None
    return None


def pair_case(acc, rnd):
    """Two interpreters bound to each other (i1.bind(i2), i2.bind(i1)), each run by its own AsyncRunner: for each of them
    the other runner's thread is a client thread calling queue().  Checked: no logical deadlock, both stop() return, every
    step reported, everything one chart sends is consumed exactly once and in order by the other."""
    strategy = rnd.choice(('random', 'random', 'sticky', 'pct'))
    S = Sched(rnd, strategy)
    if rnd.random() < 0.4 and LINES.install(line_functions()):
        S.line_mode = True
        LINES.current = S
    scn = dict(kind='pair', progs=[], final=False, execute_all=rnd.random() < 0.3, pre_queued=[], interval=0.0)
    Hs = {'1': [], '2': []}
    Hc = []
    old_time, old_bisect = RR.time, getattr(DD, 'bisect', None)
    RR.time = TimeShim(S)
    if old_bisect is not None:
        DD.bisect = BisectShim(S, Hc)
    try:
        W = {k: World(scn, Hs[k], S, label=k) for k in ('1', '2')}
        W['1'].it.bind(W['2'].it)
        W['2'].it.bind(W['1'].it)
        nq = {k: rnd.randint(1, 5) for k in W}
        uid = [0]
        started = [False]

        def client(main):
            def body():
                if main:
                    for k in ('1', '2'):
                        W[k].r.start()
                    started[0] = True
                else:
                    S.yield_('await start', blocked_on=lambda: started[0])
                todo = [k for k in W for _ in range(nq[k] if main else rnd.randint(0, 2))]
                rnd.shuffle(todo)
                for k in todo:
                    uid[0] += 1
                    Hc.append(('queue', k, uid[0]))
                    W[k].it.queue(Event('x', u=uid[0]))
                    S.yield_('client between ops')
                if not main:
                    done2[0] = True
                    return
                S.yield_('await other client', blocked_on=lambda: done2[0])
                # bounded progress, in two rounds: after 2n+4 further cycles of each runner every x queued so far has been
                # consumed (hence every y sent); after 2n+4 more, every y has been consumed by the peer
                for _ in range(2):
                    target = {k: W[k].cycles[0] + 2 * uid[0] + 4 for k in W}
                    S.yield_('await cycles', blocked_on=lambda: all(W[k].cycles[0] >= target[k] or W[k].finished() for k in W))
                for k in ('1', '2'):
                    Hc.append(('call-stop', k))
                    W[k].r.stop()
                    Hc.append(('ret-stop', k))
            return body
        two = rnd.random() < 0.5
        done2 = [not two]
        S.spawn('c0', client(True))
        if two:
            S.spawn('c1', client(False))
        verdict = S.run(max_switches=40000 if S.line_mode else 10000)
    finally:
        LINES.current = None
        RR.time = old_time
        if old_bisect is not None:
            DD.bisect = old_bisect
    acc.count('schedules_run')
    acc.count('bound_pair_schedules')
    wit = dict(scenario='two runners on two interpreters bound to each other', strategy=strategy, verdict=verdict,
               history1=[list(map(str, h)) for h in Hs['1']][-60:], history2=[list(map(str, h)) for h in Hs['2']][-60:],
               clients=[list(map(str, h)) for h in Hc][-40:], interleaving=[('%s:%s' % t) for t in S.trace][-150:])
    for n, e in S.errors:
        acc.violation('C20:exception-in-thread', 'thread %s died with %s: %s' % (n, type(e).__name__, str(e)[:200]), wit)
        return
    if verdict == 'watchdog':
        acc.note_inconclusive('schedule watchdog fired (a thread blocked outside the scheduler)')
        return
    if verdict == 'switch-limit':
        acc.count('schedules_cut_at_switch_limit')
        return
    if verdict == 'deadlock':
        wit['deadlock'] = S.deadlock
        acc.violation('C20:deadlock', 'two runners on interpreters bound to each other: logical deadlock, no runnable thread, '
                      'blocked at %r' % (S.deadlock,), wit)
        return
    acc.count('schedules_completed')
    for k, o in (('1', '2'), ('2', '1')):
        H = Hs[k]
        reported = [i for h in H if h[0] == 'hook' and h[1] == 'after_execute' for i in h[2]]
        produced = [h[3] for h in H if h[0] == 'exec' and h[2]]
        if reported != produced:
            acc.violation('C20:step-unreported-or-misreported', 'runner %s: execute_once produced %d macro steps, after_execute '
                          'received %d' % (k, len(produced), len(reported)), wit)
            return
        sent = [h[1] for h in H if h[0] == 'sent']
        got = [h[1] for h in Hs[o] if h[0] == 'exec' and h[1] is not None and h[1] > 100000 and not h[6]]
        own = [h[1] for h in H if h[0] == 'exec' and h[1] is not None and h[6]]
        if sent != own:
            acc.violation('C20:event-lost-or-starved' if set(own) < set(sent) else 'C20:internal-delivery', 'interpreter %s sent %r, '
                          'and consumed %r as internal events' % (k, sent, own), wit)
            return
        if sent != got:
            acc.violation('C20:event-lost-or-starved' if set(got) < set(sent) else 'C20:bound-delivery', 'interpreter %s sent %r to '
                          'its bound peer, whose runner consumed %r' % (k, sent, got), wit)
            return
        xs = [h[2] for h in Hc if h[0] == 'queue' and h[1] == k]
        gx = [h[1] for h in H if h[0] == 'exec' and h[1] is not None and h[1] <= 100000]
        if sorted(xs) != sorted(gx):
            acc.violation('C20:event-lost-or-starved' if len(gx) < len(xs) else 'C20:event-consumed-twice', 'clients queued %r to '
                          'interpreter %s, its runner consumed %r' % (xs, k, gx), wit)
            return
        names = [h[1] for h in H if h[0] == 'hook']
        if names.count('before_run') != 1 or names.count('after_run') != 1 or names[-1] != 'after_run':
            acc.violation('C20:lifecycle', 'runner %s: hooks %r ... %r' % (k, names[:2], names[-2:]), wit)
            return
        acc.count('events_consumed', len(got) + len(gx))
        acc.count('cycles_observed', W[k].cycles[0])
    acc.count('bound_pair_deliveries', sum(1 for k in Hs for h in Hs[k] if h[0] == 'sent'))
    acc.klass('interleavings', S.interleaving_digest())
    acc.count('distinct_interleavings')


def run_case(acc, rnd, tier, case):
    if case % 12 == 11:
        return stress_case(acc, rnd, tier)
    if case % 12 == 5:
        return pair_case(acc, rnd)
    scn = gen_scenario(rnd)
    strategy = rnd.choice(('random', 'random', 'sticky', 'pct'))
    S = Sched(rnd, strategy)
    # in about 40 % of the schedules every source line of the runner's methods and of the interpreter's queue functions
    # is a scheduling point as well (sys.monitoring LINE events; no source change)
    if rnd.random() < 0.4 and LINES.install(line_functions()):
        S.line_mode = True
        LINES.current = S
        acc.count('line_level_schedules')
    H = []
    old_time, old_bisect = RR.time, getattr(DD, 'bisect', None)
    RR.time = TimeShim(S)
    if old_bisect is not None:
        DD.bisect = BisectShim(S, H)
    try:
        world = World(scn, H, S)
        names = ['c%d' % i for i in range(len(scn['progs']))]
        done = {n: False for n in names}

        def mk(i, n):
            others_done = lambda: all(done[m] for m in names if m != n)       # noqa: E731
            body = client_body(world, n, scn['progs'][i], i == 0, others_done, S)

            def run():
                try:
                    body()
                finally:
                    done[n] = True
            return run
        for i, n in enumerate(names):
            S.spawn(n, mk(i, n))
        verdict = S.run(max_switches=30000 if S.line_mode else 6000)
    finally:
        LINES.current = None
        RR.time = old_time
        if old_bisect is not None:
            DD.bisect = old_bisect
    acc.count('schedules_run')
    acc.count('strategy_' + strategy)
    if scn['execute_all']:
        acc.count('execute_all_schedules')
    if scn.get('impatient') or scn.get('stop_on_final'):
        acc.count('overlapping_stop_scenarios')
    wit = dict(scenario=scn, strategy=strategy, verdict=verdict, history=[list(map(str, h)) for h in H][-120:],
               interleaving=[('%s:%s' % t) for t in S.trace][-150:])
    for n, e in S.errors:
        if isinstance(e, RuntimeError) and n != 'runner':
            continue
        acc.violation('C20:exception-in-thread', 'thread %s died with %s: %s' % (n, type(e).__name__, str(e)[:200]), wit)
        return
    if verdict == 'watchdog':
        acc.note_inconclusive('schedule watchdog fired (a thread blocked outside the scheduler)')
        return
    if verdict == 'switch-limit':
        acc.count('schedules_cut_at_switch_limit')
        return
    if any(h[0] == 'bisect-done' for h in H):
        pre = False
        for i, h in enumerate(H):
            if h[0] == 'bisect-done' and i + 1 < len(H) and H[i + 1][0] in ('exec', 'hook', 'flag'):
                pre = True
        if pre:
            acc.count('client_preempted_between_bisect_and_insert')
    if any(h[0] == 'call' and h[2] == 'stop' for h in H) and any(h[0] == 'flag' and h[1] == 'unpaused' and h[2] == 'clear' for h in H):
        acc.count('stops_while_paused')
    if verdict == 'deadlock':
        mech = classify_deadlock(H, S, world)
        wit['deadlock'] = S.deadlock
        if mech:
            acc.violation('stop-then-pause-deadlock', 'logical deadlock %r: %s' % (S.deadlock, mech), wit)
        else:
            acc.violation('C20:deadlock', 'logical deadlock: no runnable thread, blocked at %r' % (S.deadlock,), wit)
        return
    acc.count('schedules_completed')
    if not check_history(acc, scn, H, world, verdict, S, wit):
        return
    dg = S.interleaving_digest()
    acc.klass('interleavings', dg)
    acc.count('distinct_interleavings')
    # non-trivial: the runner ran between two operations of a client (i.e. a real interleaving, not a sequential run)
    tr = [t[0] for t in S.trace]
    if any(tr[i] != 'runner' and tr[i + 1] == 'runner' and any(x != 'runner' for x in tr[i + 2:i + 40]) for i in range(len(tr) - 2)):
        acc.nontrivial(dg)
        acc.sample(dict(scenario=scn['kind'], clients=len(scn['progs']), strategy=strategy, switches=S.switches,
                        interleaving_head=['%s:%s' % t for t in S.trace[:25]]))


def stress_case(acc, rnd, tier):
    """Free-running mode: real threads, tiny switch interval; delay-0 events only, pause/stop from one client only
    (so that the two known findings cannot be provoked here)."""
    old = sys.getswitchinterval()
    sys.setswitchinterval(1e-5)
    H = []
    try:
        scn = dict(kind='stress', progs=[], final=rnd.random() < 0.3, execute_all=rnd.random() < 0.4, pre_queued=[], interval=0.0)
        uid = [0]
        nclients = rnd.choice((2, 3, 4))
        for c in range(nclients):
            ops = []
            for _ in range(rnd.randint(20, 60)):
                r = rnd.random()
                if r < 0.85:
                    uid[0] += 1
                    ops.append(('queue', uid[0], 0))
                elif c == 0 and r < 0.92:
                    ops.append(('pause',))
                    ops.append(('idle', 2))
                    ops.append(('unpause',))
                else:
                    ops.append(('idle', 1))
            scn['progs'].append(ops)
        world = World(scn, H, None)
        names = ['c%d' % i for i in range(nclients)]
        done = {n: False for n in names}
        threads = []
        for i, n in enumerate(names):
            others_done = (lambda n=n: all(done[m] for m in names if m != n))
            body = client_body(world, n, scn['progs'][i], i == 0, others_done, None)

            def run(body=body, n=n):
                try:
                    body()
                except BaseException as e:      # noqa
                    H.append(('client-error', n, type(e).__name__, str(e)[:200]))
                    world.started = True
                finally:
                    done[n] = True
            t = threading.Thread(target=run, name=n, daemon=True)
            threads.append(t)
        for t in threads:
            t.start()
        for t in threads:
            t.join(timeout=60)
        if any(t.is_alive() for t in threads):
            acc.note_inconclusive('stress run: a client thread did not finish within 60 s (watchdog)')
            return
        errs = [h for h in H if h[0] == 'client-error']
        if errs:
            world.r.stop()
            acc.violation('C20:exception-in-client-call', 'a client call raised %s: %s' % (errs[0][2], errs[0][3]),
                          dict(history=[list(map(str, h)) for h in H][-60:]))
            return
        world.r.wait()
    finally:
        sys.setswitchinterval(old)
    acc.count('stress_runs')
    acc.count('schedules_run')
    acc.count('schedules_completed')
    wit = dict(scenario=dict(kind='stress', clients=len(scn['progs']), final=scn['final'], execute_all=scn['execute_all']),
               history=[list(map(str, h)) for h in H][-150:])
    if world.r.running:
        acc.violation('C20:runner-alive-after-stop', 'runner thread still alive after stop()/wait() returned', wit)
        return
    check_history(acc, scn, H, world, 'done', None, wit)
