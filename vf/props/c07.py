"""C07 – determinism / declaration-order independence (DESIGN §4 C07).

Differential monitor, real run against real run:
 (a) the same abstract chart built with permuted add_state/add_transition order (API) and permuted
     sibling order / per-state transition order (YAML text) must produce the identical run;
 (b) repeating the run in the same process reproduces it;
 (c) child processes started with other PYTHONHASHSEED values reproduce the same trace digests
     (also for a host chart obtained through copy_from_statechart, which goes through a set()).
"""
import json
import os
import subprocess
import sys

from ..common import PYTHON, REPO, VERIF_DIR, case_rng, digest
from ..gen import Tree, chart_digest, gen_chart
from ..lockstep import Runner, first_difference, gen_script
from ..probes import Probes, make_val
from .. import build

PID = 'C07'
LEVEL = 'exploration'
RULE = ('One case = one generated chart + one input history; the base build (API) is run, then k permuted builds '
        '(API declaration order / YAML sibling order and per-state transition order), one repetition, and - per shard - '
        'child processes with other PYTHONHASHSEED values recompute the trace digests of every case (plain chart and a '
        'copy_from_statechart host). Every projected field of every macro step (time, event, per micro step transition/'
        'exited/entered/sent), the executed code sequence, configuration, context and error kind are compared. '
        'Non-trivial = distinct cases whose base run contains a step with >= 2 transitions or an exit list with >= 2 '
        'states of equal depth AND whose permuted builds really changed a sibling order.  Some guards cannot be evaluated (same kind of error '
        'whatever the order); the repetition hands the same initial_context dictionary to a second interpreter; names differing by case only.')
ASSUMPTIONS = ['order of guard *evaluation* is not part of a macro step and is not compared',
               'generator domain of DESIGN §2; hash seeds sampled, not enumerated']
REQUIRED_COUNTERS = ['cases_with_case_variant_sibling_regions', 'repetitions_with_the_same_initial_context_object', 'cases_with_guards_that_raise', 'edited_variants', 'variant_runs_compared', 'yaml_variants', 'api_variants', 'hashseed_children', 'hashseed_digests_compared',
                     'cases_with_same_depth_exits']

MODES = [('orth', 4, dict(p_orth=0.5, p_state_send=0.15)), ('clash', 2, dict(p_orth=0.4)),
         ('history', 3, dict(p_hist=0.7, p_orth=0.4, min_states=6)), (None, 1, dict())]
TIERS = dict(quick=dict(steps=30, perms=3, gen=dict(max_states=12, max_depth=4, max_trans=14), hashseeds=(1, 7)),
             thorough=dict(steps=60, perms=6, gen=dict(max_states=18, max_depth=5, max_trans=24), hashseeds=(1, 7, 12345, 4294967295)))


def plan(tier):
    return dict(cases=1600 if tier == 'quick' else 12000, shards=16, timeout=900 if tier == 'quick' else 3600)


def make_case(rnd, tier):
    T = TIERS[tier]
    mode, _, kw = rnd.choices(MODES, weights=[m[1] for m in MODES])[0]
    g = dict(T['gen'])
    g.update(kw)
    if rnd.random() < 0.15:
        g['p_odd_names'] = 1.0       # names that differ by case only, format-significant characters...
    ch = gen_chart(rnd, mode=mode, **g)
    if rnd.random() < 0.2:
        # sibling regions whose names differ by case only ('Wk' / 'wk'): two names, two states, one fixed order
        st_ = ch['states']
        orths = [n for n in ch['order'] if st_[n]['kind'] == 'orthogonal' and len(st_[n]['children']) >= 2]
        taken = set(ch['order'])
        if orths and not ({'Wk', 'wk'} & taken):
            from .c11 import rename_chart
            a, b = rnd.sample(st_[rnd.choice(orths)]['children'], 2)
            ch = rename_chart(ch, {a: 'Wk', b: 'wk'}, {})
    if rnd.random() < 0.25:
        # some guards cannot be evaluated: the step fails, and with the same kind of error whatever the declaration order
        for t in ch['transitions']:
            if t['event'] is not None and rnd.random() < 0.2:
                t['raising_guard'] = True
    script = gen_script(rnd, ch['events'], T['steps'])
    valseed = rnd.random()
    p_true = rnd.choice((0.3, 0.6, 0.9, 1.0))
    return ch, script, valseed, p_true


class Coder07(build.Coder):
    bump_v = True       # every executable fragment rebinds a variable of the context


CODER = Coder07()


def run_build(sc, tmap, script, valseed, p_true, ren=None, shared=None):
    """``shared``: (Probes, dict) of an earlier run - the very same initial_context dictionary is handed to a new interpreter
    (same arguments, same process): the run must be the same, and the caller's dictionary must still be what it was."""
    from sismic.interpreter import Interpreter
    if shared is None:
        pr = Probes(val=None)
        ctx = pr.context(v=0)
    else:
        pr, ctx = shared
        del pr.log[:]
        pr.uid, pr.cond_count = 1000, 0        # (the probes' own counters are the harness's, not the statechart's)
    val = make_val(valseed, p_true)
    pr.val = val
    run_build.last = (pr, ctx)
    it = Interpreter(sc, initial_context=ctx)
    r = Runner(it, tmap, ren=ren, log=pr.log)
    obs = []
    k = 0
    for op in script:
        if op[0] == 'step':
            pr.stepno = k
            k += 1
            o = r.apply(op)
            o = o + (tuple((e[0], e[1]) for e in pr.log if e[0] in 'EXAU'),)
            obs.append(o)
        else:
            r.apply(op)
    return obs


def permuted_order(rnd, ch):
    st = ch['states']
    order = []
    frontier = [ch['root']]
    while frontier:
        n = frontier.pop(rnd.randrange(len(frontier)))
        order.append(n)
        frontier.extend(st[n]['children'])
    return order


def tmap_host(ch, host):
    # the guest root was renamed to SLOT: match on action code only (distinct ids per transition)
    by_action = {(CODER.action(ch, t) or '').strip(): t['id'] for t in ch['transitions']}
    return {id(tr): by_action[(tr.action or '').strip()] for tr in host.transitions}


def base_digests(ch, script, valseed, p_true):
    sc, tmap = build.build_api(ch, coder=CODER)
    obs = run_build(sc, tmap, script, valseed, p_true)
    from sismic.model import CompoundState, BasicState, Statechart
    host = Statechart('host')
    host.add_state(CompoundState('HOST', initial='SLOT'), None)
    host.add_state(BasicState('SLOT'), 'HOST')
    guest, _ = build.build_api(ch, coder=CODER)
    host.copy_from_statechart(guest, source=ch['root'], replace='SLOT')
    obs_h = run_build(host, tmap_host(ch, host), script, valseed, p_true)
    return obs, digest(obs), digest(obs_h)


def run_case(acc, rnd, tier, case):
    T = TIERS[tier]
    ch, script, valseed, p_true = make_case(rnd, tier)
    tr = Tree(ch)
    st = ch['states']
    if any(t.get('raising_guard') for t in ch['transitions']):
        acc.count('cases_with_guards_that_raise')
    if 'Wk' in st and 'wk' in st and st['Wk']['parent'] == st['wk']['parent']:
        acc.count('cases_with_case_variant_sibling_regions')
    base, d_base, d_host = base_digests(ch, script, valseed, p_true)
    acc.extra.setdefault('_digests', {})[str(case)] = [d_base, d_host]
    wit = dict(chart=ch, script=script, p_true=p_true)
    # non-trivial?
    same_depth = False
    multi = False
    for o in base:
        if o[0] == 'step' and o[1] is not None:
            micro = o[1][2]
            if sum(1 for m in micro if m[0] is not None) >= 2:
                multi = True
            for m in micro:
                depths = [tr.depth(s) for s in m[1]]
                if len(depths) != len(set(depths)):
                    same_depth = True
    if same_depth:
        acc.count('cases_with_same_depth_exits')
    if multi:
        acc.count('cases_with_multi_transition_steps')
    changed_sibling_order = False
    # (b) repetition in the same process
    sc, tmap = build.build_api(ch, coder=CODER)
    rep = run_build(sc, tmap, script, valseed, p_true)
    acc.count('variant_runs_compared')
    if not compare(acc, base, rep, 'repeat-differs', 'same build, same inputs, same process', wit):
        return
    shared = run_build.last
    before = dict(shared[1])
    sc, tmap = build.build_api(ch, coder=CODER)
    rep = run_build(sc, tmap, script, valseed, p_true, shared=shared)
    acc.count('repetitions_with_the_same_initial_context_object')
    if not compare(acc, base, rep, 'repeat-differs', 'same inputs, same process, the initial_context dictionary of the previous run given '
                   'again', wit):
        return
    if dict(shared[1]) != before or before.get('v') != 0:
        acc.violation('C07:repeat-differs', "the caller's initial_context dictionary was changed by the run: v=%r, keys added %r"
                      % (shared[1].get('v'), sorted(set(shared[1]) - set(before))), wit)
        return
    # (a) permuted declarations
    for v in range(T['perms']):
        trans = list(ch['transitions'])
        rnd.shuffle(trans)
        if v % 3 == 2:
            r_ = build.build_edited(ch, rnd, coder=CODER)
            if r_ is None:
                continue
            sc, tmap, detours = r_
            acc.count('edited_variants')
            what = 'build reached through a detour of edits %r' % (detours,)
            extra = dict(detours=detours)
            changed_sibling_order = True
        elif v % 2 == 0:
            order = permuted_order(rnd, ch)
            sc, tmap = build.build_api(ch, coder=CODER, order=order, transitions=trans)
            acc.count('api_variants')
            what = 'API build with permuted add_state/add_transition order'
            for n, s in st.items():
                kids_base = [x for x in ch['order'] if st[x]['parent'] == n]
                kids_var = [x for x in order if st[x]['parent'] == n]
                if kids_base != kids_var:
                    changed_sibling_order = True
            extra = dict(order=order, transitions=[t['id'] for t in trans])
        else:
            child_order = {}
            for n, s in st.items():
                kids = list(s['children'])
                rnd.shuffle(kids)
                child_order[n] = kids
                if kids != [x for x in ch['order'] if st[x]['parent'] == n]:
                    changed_sibling_order = True
            sc, tmap = build.build_yaml(ch, coder=CODER, child_order=child_order, transitions=trans)
            acc.count('yaml_variants')
            what = 'YAML build with permuted sibling order / transition order'
            extra = dict(child_order=child_order, transitions=[t['id'] for t in trans])
        obs = run_build(sc, tmap, script, valseed, p_true)
        acc.count('variant_runs_compared')
        w = dict(wit)
        w.update(extra)
        if not compare(acc, base, obs, 'declaration-order-dependence', what, w):
            return
    acc.count('steps_compared', len(base) * (T['perms'] + 1))
    if (same_depth or multi) and changed_sibling_order:
        acc.nontrivial((chart_digest(ch), digest(script)))
        acc.sample(dict(states=len(st), steps=len(base), multi_transition_step=multi, same_depth_exit=same_depth,
                        base_declaration_order=ch['order'], example_step=next((o[1] for o in base if o[0] == 'step' and o[1]
                                                                            and len(o[1][2]) >= 2), None)))


def compare(acc, base, obs, key, what, wit):
    for k, (a, b) in enumerate(zip(base, obs)):
        if a != b:
            d = first_difference(a, b)
            if d is None and a[5:] != b[5:]:
                d = 'executed code sequence %r vs %r' % (a[5:], b[5:])
            acc.violation('C07:' + key, '%s: run differs at step %d: %s' % (what, k, d), dict(wit, step=k))
            return False
    return True


def finish_shard(acc, shard, nshards):
    """(c) other PYTHONHASHSEED values, in child processes, over all cases of this shard."""
    digs = acc.extra.pop('_digests', {})
    if not digs:
        return
    T = TIERS[acc.tier]
    seeds = list(T['hashseeds']) + [case_rng(PID, acc.tier, acc.seed, -1 - shard).randrange(2 ** 32)]
    for hs in seeds:
        env = dict(os.environ)
        env['PYTHONHASHSEED'] = str(hs)
        env['VERIF_REPO'] = REPO
        cases = ','.join(sorted(digs, key=int))
        try:
            p = subprocess.run([PYTHON, '-B', '-m', 'vf.props.c07', 'child', acc.tier, str(acc.seed), cases],
                               cwd=VERIF_DIR, env=env, stdout=subprocess.PIPE, stderr=subprocess.PIPE, text=True,
                               timeout=1500)
        except subprocess.TimeoutExpired:
            acc.note_inconclusive('hash-seed child %s timed out' % hs)
            continue
        if p.returncode != 0:
            acc.note_inconclusive('hash-seed child %s failed: %s' % (hs, p.stderr[-800:]))
            continue
        got = json.loads([l for l in p.stdout.splitlines() if l.startswith('DIGESTS ')][-1][8:])
        acc.count('hashseed_children')
        for c, dd in got.items():
            acc.count('hashseed_digests_compared', 2)
            if dd != digs[c]:
                acc.case = int(c)
                which = 'plain chart' if dd[0] != digs[c][0] else 'copy_from_statechart host'
                acc.violation('C07:hash-seed-dependence', 'case %s (%s): trace digest under PYTHONHASHSEED=%s differs from '
                              'the one under PYTHONHASHSEED=%s' % (c, which, hs, os.environ.get('PYTHONHASHSEED')),
                              dict(hashseed=hs, digests=[dd, digs[c]]))


def child(argv):
    tier, seed, cases = argv[0], int(argv[1]), [int(c) for c in argv[2].split(',') if c]
    out = {}
    for c in cases:
        rnd = case_rng(PID, tier, seed, c)
        ch, script, valseed, p_true = make_case(rnd, tier)
        _, d1, d2 = base_digests(ch, script, valseed, p_true)
        out[str(c)] = [d1, d2]
    sys.stdout.write('DIGESTS ' + json.dumps(out) + '\n')


if __name__ == '__main__':
    if sys.argv[1] == 'child':
        child(sys.argv[2:])
