"""C01 – see DESIGN.md §4 C01.  Workload mode 'select' of the shared execution monitor (vf.execmon)."""
from .. import execmon
from ._exec_meta import META

MODE = 'select'
PID = 'C01'
LEVEL = 'exploration'
RULE = META[PID]['rule']
ASSUMPTIONS = META[PID]['assumptions']
REQUIRED_COUNTERS = META[PID]['required']


def plan(tier):
    return dict(cases=6000 if tier == "quick" else 60000, shards=16, timeout=600 if tier == 'quick' else 3000)


def run_case(acc, rnd, tier, case):
    if case % 40 == 7:
        # which of two equal-looking pending events (one internal, one external) a step is about
        from .c05 import equal_events_case
        return equal_events_case(acc, rnd, PID)
    modes = META[PID]['modes']
    mode, _, kw = rnd.choices(modes, weights=[m[1] for m in modes])[0]
    acc.count('mode_' + mode)
    execmon.run_case(acc, rnd, tier, case, mode, PID, gen_kw=dict(kw or {}, p_event_guard=0.5))
