"""C11 – YAML export/import round trip is lossless: structural comparison, ==, second round trip,
and differential execution of the original against its re-import (DESIGN §4 C11)."""
import copy
import glob
import os
from collections import Counter

from ..common import REPO, VERIF_DIR, import_sismic
from ..gen import chart_digest, gen_chart
from ..lockstep import Runner, first_difference, gen_script
from ..probes import Probes, make_val
from .. import build, torture

import_sismic()
from sismic.interpreter import Interpreter  # noqa: E402
from sismic.io import export_to_yaml, import_from_yaml  # noqa: E402
from sismic.model import CompoundState  # noqa: E402

from sismic.model import (BasicState as _B, FinalState as _F, ShallowHistoryState as _SH, DeepHistoryState as _DH,  # noqa: E402
                          OrthogonalState as _O)


class MyFinal(_F):
    """user subclasses (e.g. carrying layout metadata); the library tests kinds with isinstance everywhere"""


class MyShallow(_SH):
    pass


class MyDeep(_DH):
    pass


class MyBasic(_B):
    pass


class MyOrthogonal(_O):
    pass


SUBCLASSES = dict(final=MyFinal, shallow=MyShallow, deep=MyDeep, basic=MyBasic, orthogonal=MyOrthogonal)
BASE_KINDS = (_F, _SH, _DH, CompoundState, _O, _B)


def kind(state):
    return next(k.__name__ for k in BASE_KINDS if isinstance(state, k))


PID = 'C11'
LEVEL = 'exploration'
RULE = ('One case = (a) "text torture": a generated structure whose state names, event names, description, preamble and every '
        'code/contract field are YAML-significant / unicode / multi-line / >80-column strings, built through the API (declaration '
        'order shuffled, transitions of one state not contiguous), exported, re-imported: every listed field compared (code '
        'modulo surrounding whitespace), == in both directions when the strings carry no surrounding whitespace, second round '
        'trip a fixed point; (b) "behaviour": a generated executable chart with torture names and probe code, original and '
        're-import driven in lock-step on a random history; (c) the shipped YAML charts. Non-trivial = distinct charts '
        'containing >= 1 torture string and >= 1 of {history, orthogonal, contract, priority != 0}.  The torture alphabet includes the characters '
        'YAML treats as line breaks or may not write verbatim; an exported statechart is edited (name swap) and exported again; user '
        'subclasses of the model classes; round trips through files.')
ASSUMPTIONS = ['characters YAML cannot carry without escaping rules of its own (C0/C1 controls other than \\n \\t, U+2028/2029, BOM, '
               'surrogates, \\r) are excluded; event names carry no surrounding whitespace; code strings are non-empty after stripping']
REQUIRED_COUNTERS = ['failed_exports_before_a_valid_one', 'roundtrips_after_editing_an_exported_statechart', 'charts_with_user_subclasses', 'roundtrips_through_existing_file', 'yaml_1_1_document_imported_before', 'roundtrips', 'fields_compared', 'eq_checks', 'second_roundtrips', 'behaviour_steps_compared',
                     'shipped_roundtrips', 'charts_with_long_nonascii', 'charts_with_noncontiguous_transitions']
TIERS = dict(quick=dict(steps=25, gen=dict(max_states=10, max_depth=4, max_trans=12)),
             thorough=dict(steps=45, gen=dict(max_states=16, max_depth=5, max_trans=22)))


def plan(tier):
    return dict(cases=2400 if tier == 'quick' else 40000, shards=16, timeout=900 if tier == 'quick' else 3600)


def rename_chart(ch, smap, emap):
    ch2 = copy.deepcopy(ch)
    r = lambda n: None if n is None else smap.get(n, n)    # noqa: E731
    st = {}
    for n, s in ch['states'].items():
        s2 = copy.deepcopy(s)
        s2['parent'] = r(s['parent'])
        s2['children'] = [r(c) for c in s['children']]
        s2['initial'] = r(s['initial'])
        s2['memory'] = r(s['memory'])
        for lst in (s2['sends_entry'], s2['sends_exit']):
            for x in lst:
                x['name'] = emap.get(x['name'], x['name'])
        st[r(n)] = s2
    ch2['states'] = st
    ch2['root'] = r(ch['root'])
    ch2['order'] = [r(n) for n in ch['order']]
    for t in ch2['transitions']:
        t['source'] = r(t['source'])
        t['target'] = r(t['target'])
        t['event'] = None if t['event'] is None else emap.get(t['event'], t['event'])
        for x in t['sends']:
            x['name'] = emap.get(x['name'], x['name'])
    ch2['events'] = [emap.get(e, e) for e in ch['events']]
    return ch2


class TextCoder(build.Coder):
    """Arbitrary text in every code field (structural mode)."""

    def __init__(self, rnd, padded):
        self.rnd, self.padded, self.memo = rnd, padded, {}

    def _t(self, key, p_none=0.3):
        if key not in self.memo:
            if self.rnd.random() < p_none:
                self.memo[key] = None
            else:
                s = torture.text(self.rnd)
                if not self.padded:
                    s = s.strip()
                else:
                    s = torture.pad(self.rnd, s)
                self.memo[key] = s
        return self.memo[key]

    def entry(self, ch, n):
        return self._t(('e', n))

    def exit(self, ch, n):
        return self._t(('x', n))

    def action(self, ch, t):
        # keep a distinct tag per transition so that transitions can be matched
        a = self._t(('a', t['id']), p_none=0.0)
        return a

    def guard(self, ch, t):
        return self._t(('g', t['id']), p_none=0.4)

    def cond(self, ch, owner_is_transition, cid, kind):
        return self._t(('c', cid), p_none=0.0)


def norm(x):
    return x.strip() if isinstance(x, str) else x


def tkey(t, strip=True):
    f = norm if strip else (lambda x: x)
    return (t.source, t.target, t.event, f(t.guard), f(t.action), t.priority, tuple(map(f, t.preconditions)),
            tuple(map(f, t.postconditions)), tuple(map(f, t.invariants)))


def compare_structure(a, b):
    """a: original, b: re-import.  Returns None or a message."""
    if (a.name, a.description, norm(a.preamble)) != (b.name, b.description, norm(b.preamble)):
        return 'statechart header differs: %r vs %r' % ((a.name, a.description, a.preamble), (b.name, b.description, b.preamble))
    if a.states != b.states:
        return 'state names differ: %r vs %r' % (sorted(set(a.states) - set(b.states)), sorted(set(b.states) - set(a.states)))
    if a.root != b.root:
        return 'root differs'
    n_fields = 0
    for n in a.states:
        sa, sb = a.state_for(n), b.state_for(n)
        if kind(sa) != kind(sb):
            return 'kind of %r differs: %s vs %s' % (n, kind(sa), kind(sb))
        if a.parent_for(n) != b.parent_for(n):
            return 'parent of %r differs' % n
        if sorted(a.children_for(n)) != sorted(b.children_for(n)):
            return 'children of %r differ' % n
        for f in ('on_entry', 'on_exit', 'initial', 'memory'):
            n_fields += 1
            if norm(getattr(sa, f, None)) != norm(getattr(sb, f, None)):
                return '%s of %r differs: %r vs %r' % (f, n, getattr(sa, f, None), getattr(sb, f, None))
        for f in ('preconditions', 'postconditions', 'invariants'):
            n_fields += 1
            if list(map(norm, getattr(sa, f))) != list(map(norm, getattr(sb, f))):
                return '%s of %r differ: %r vs %r' % (f, n, getattr(sa, f), getattr(sb, f))
    ka, kb = Counter(map(tkey, a.transitions)), Counter(map(tkey, b.transitions))
    if ka != kb:
        return 'transitions differ: only in original %r; only in re-import %r' % (list((ka - kb).elements())[:2],
                                                                                 list((kb - ka).elements())[:2])
    return n_fields + 9 * len(a.transitions)


def compare_eq(a, b):
    for n in a.states:
        sa, sb = a.state_for(n), b.state_for(n)
        if not (sa == sb) or not (sb == sa) or (sa != sb):
            return 'state %r != its re-import' % n
    tb = list(b.transitions)
    for t in a.transitions:
        m = next((x for x in tb if x == t and t == x), None)
        if m is None:
            return 'transition %s has no == counterpart in the re-import' % (t,)
        tb.remove(m)
    if tb:
        return 're-import has extra transitions %r' % tb[:2]
    return None


Y11 = '''%YAML 1.1
---
statechart:
  name: legacy
  root state:
    name: root
    initial: a
    states:
      - name: a
'''


def rewrite_case(acc, rnd):
    """The same path is exported to twice (a document of the same size; the file's timestamps are put back, as cp -p, rsync or a
    version-control checkout do): what is imported is what the file holds now."""
    import tempfile
    from sismic.model import BasicState, CompoundState, Statechart, Transition
    names = rnd.sample(['b', 'c', 'd', 'e'], 2)

    def make(target):
        sc = Statechart('rw')
        sc.add_state(CompoundState('root', initial='a'), None)
        for n in ['a'] + sorted(names):
            sc.add_state(BasicState(n), 'root')
        sc.add_transition(Transition('a', target, event='go'))
        return sc
    os.makedirs(os.path.join(VERIF_DIR, '.work'), exist_ok=True)
    fd, fp = tempfile.mkstemp(prefix='c11-rw-', suffix='.yaml', dir=os.path.join(VERIF_DIR, '.work'))
    os.close(fd)
    try:
        export_to_yaml(make(names[0]), filepath=fp)
        st = os.stat(fp)
        first = import_from_yaml(filepath=fp)
        export_to_yaml(make(names[1]), filepath=fp)
        same_size = os.stat(fp).st_size == st.st_size
        os.utime(fp, ns=(st.st_atime_ns, st.st_mtime_ns))
        second = import_from_yaml(filepath=fp)
    finally:
        os.unlink(fp)
    acc.count('same_path_rewritten' + ('_same_size' if same_size else ''))
    got = [(t.source, t.target) for t in second.transitions]
    if [(t.source, t.target) for t in first.transitions] != [('a', names[0])] or got != [('a', names[1])]:
        acc.violation('C11:file-roundtrip-stale', 'a statechart with transition a->%s was exported to a path that held an earlier export '
                      '(a->%s, same size, same timestamps); import_from_yaml(filepath=...) gave %r' % (names[1], names[0], got), {})


def run_case(acc, rnd, tier, case):
    if case % 50 == 17:
        return rewrite_case(acc, rnd)
    if rnd.random() < 0.05:
        # a valid document carrying a %YAML directive was imported earlier in this process: no state may survive in the io layer
        import_from_yaml(Y11)
        acc.count('yaml_1_1_document_imported_before')
    r = rnd.random()
    if r < 0.04:
        return shipped_case(acc, rnd)
    if r < 0.6:
        return torture_case(acc, rnd, tier)
    return behaviour_case(acc, rnd, tier)


def torture_names(rnd, ch):
    used = set()
    smap = {n: torture.name(rnd, used) for n in ch['order']}
    eused = set()
    emap = {e: torture.name(rnd, eused, spaces_ok=False).strip() or 'e' for e in ch['events'] + ['zz']}
    return smap, emap


FILE = [None]


def failed_export_first(acc):
    """An export that cannot succeed (a priority the YAML dumper cannot represent) is attempted and its error caught: the
    exports that follow in the same process are not its business."""
    from fractions import Fraction
    from sismic.model import BasicState, CompoundState, Statechart, Transition
    bad = Statechart('unexportable')
    bad.add_state(CompoundState('root', initial='a'), None)
    bad.add_state(BasicState('a'), 'root')
    bad.add_transition(Transition('a', None, event='e', priority=Fraction(1, 2)))
    try:
        export_to_yaml(bad)
    except Exception:       # noqa
        acc.count('failed_exports_before_a_valid_one')


def roundtrip(acc, sc, wit):
    via_file = (acc.counters.get('roundtrips', 0) % 4 == 3)
    if acc.counters.get('roundtrips', 0) % 9 == 4:
        failed_export_first(acc)
    try:
        if via_file:
            # documented filepath parameters, on a path that already holds an earlier (possibly longer) export
            import tempfile
            if FILE[0] is None:
                os.makedirs(os.path.join(VERIF_DIR, '.work'), exist_ok=True)
                fd, FILE[0] = tempfile.mkstemp(prefix='c11-', suffix='.yaml', dir=os.path.join(VERIF_DIR, '.work'))
                os.close(fd)
            y = export_to_yaml(sc, filepath=FILE[0])
            acc.count('roundtrips_through_existing_file')
        else:
            y = export_to_yaml(sc)
    except Exception as e:      # noqa
        acc.violation('C11:export-raised', 'export_to_yaml raised %s: %s' % (type(e).__name__, str(e)[:200]), wit)
        return None, None
    try:
        sc2 = import_from_yaml(filepath=FILE[0]) if via_file else import_from_yaml(y)
    except Exception as e:      # noqa
        acc.violation('C11:import-of-export-raised', 'import_from_yaml(export_to_yaml(sc)) raised %s: %s' %
                      (type(e).__name__, str(e)[:300]), dict(wit, yaml=y[:3000]))
        return None, None
    acc.count('roundtrips')
    return y, sc2


def features(ch):
    f = set()
    for s in ch['states'].values():
        if s['kind'] in ('shallow', 'deep'):
            f.add('history')
        if s['kind'] == 'orthogonal':
            f.add('orthogonal')
        if any(s['contracts'].values()):
            f.add('contract')
    for t in ch['transitions']:
        if t['priority'] != 0:
            f.add('priority')
        if any(t['contracts'].values()):
            f.add('contract')
    return f


def torture_case(acc, rnd, tier):
    T = TIERS[tier]
    ch0 = gen_chart(rnd, contracts=True, p_contract=0.4, mode=rnd.choice((None, 'orth', 'history')), p_hist=0.35,
                    priorities=(-3, -1, 0, 0, 1, 2, 17), **T['gen'])
    smap, emap = torture_names(rnd, ch0)
    ch = rename_chart(ch0, smap, emap)
    ch['name'] = torture.text(rnd, multiline_ok=False).strip()
    ch['description'] = None if rnd.random() < 0.3 else torture.text(rnd)
    ch['preamble'] = None if rnd.random() < 0.3 else torture.text(rnd)
    padded = rnd.random() < 0.5
    coder = TextCoder(rnd, padded)
    # unique actions so that transitions are distinguishable is NOT required here: duplicates are legal
    sub = rnd.random() < 0.25
    if sub:
        acc.count('charts_with_user_subclasses')
    sc, _ = build.build_api(ch, coder=coder, klass=SUBCLASSES if sub else None)
    wit = dict(chart=ch, padded=padded, user_subclasses=sub, texts={repr(k): v for k, v in coder.memo.items()})
    src = [t['source'] for t in ch['transitions']]
    if any(src[i] != src[i - 1] and src[i] in src[:i - 1] for i in range(2, len(src))):
        acc.count('charts_with_noncontiguous_transitions')
    alltext = [ch['name'], ch['description'] or '', ch['preamble'] or ''] + [v for v in coder.memo.values() if v] + list(ch['states'])
    if any(len(s) > 80 and any(ord(c) > 127 for c in s) for s in alltext):
        acc.count('charts_with_long_nonascii')
    y, sc2 = roundtrip(acc, sc, wit)
    if sc2 is None:
        return
    res = compare_structure(sc, sc2)
    if not isinstance(res, int):
        acc.violation('C11:field-lost-or-changed', res, dict(wit, yaml=y[:3000]))
        return
    acc.count('fields_compared', res)
    if not padded:
        msg = compare_eq(sc, sc2)
        acc.count('eq_checks', len(sc.states) + len(sc.transitions))
        if msg:
            acc.violation('C11:not-equal', msg, dict(wit, yaml=y[:3000]))
            return
    y2, sc3 = roundtrip(acc, sc2, wit)
    if sc3 is None:
        return
    res = compare_structure(sc2, sc3)
    msg = None if isinstance(res, int) else res
    if msg is None:
        msg = compare_eq(sc2, sc3)
    if msg:
        acc.violation('C11:second-roundtrip-not-fixed-point', msg, dict(wit, yaml=y2[:3000]))
        return
    acc.count('second_roundtrips')
    if rnd.random() < 0.35 and len(sc.states) >= 3:
        # the statechart object that was just exported is edited (two states swap their names through a temporary one, a
        # transition is added) and exported again: what is written is the statechart as it is now
        a, b = rnd.sample([n for n in sc.states if n != sc.root], 2)
        tmp = 'tmp\u00a0swap'
        try:
            sc.rename_state(a, tmp)
            sc.rename_state(b, a)
            sc.rename_state(tmp, b)
        except Exception:       # noqa  (not this property's business)
            return
        y3, sc4 = roundtrip(acc, sc, wit)
        if sc4 is None:
            return
        res = compare_structure(sc, sc4)
        if not isinstance(res, int):
            acc.violation('C11:field-lost-or-changed', 'after the exported statechart had states %r and %r swap their names and was '
                          'exported again: %s' % (a, b, res), dict(wit, yaml=y3[:3000]))
            return
        acc.count('roundtrips_after_editing_an_exported_statechart')
    f = features(ch)
    if f:
        acc.nontrivial((chart_digest(ch), padded), cls='torture')
        acc.sample(dict(names=list(ch['states'])[:6], events=ch['events'], features=sorted(f), yaml_head=y[:400]))


def behaviour_case(acc, rnd, tier):
    T = TIERS[tier]
    ch0 = gen_chart(rnd, mode=rnd.choice((None, 'orth', 'history', 'order')), p_hist=0.35, p_state_send=0.15, **T['gen'])
    smap, emap = torture_names(rnd, ch0)
    ch = rename_chart(ch0, smap, emap)
    sub = rnd.random() < 0.25
    if sub:
        acc.count('charts_with_user_subclasses')
    sc, tmap = build.build_api(ch, klass=SUBCLASSES if sub else None)
    wit = dict(chart=ch, user_subclasses=sub)
    y, sc2 = roundtrip(acc, sc, wit)
    if sc2 is None:
        return
    res = compare_structure(sc, sc2)
    if not isinstance(res, int):
        acc.violation('C11:field-lost-or-changed', res, dict(wit, yaml=y[:3000]))
        return
    acc.count('fields_compared', res)
    try:
        tmap2 = build.tmap_from_actions(ch, sc2)
    except KeyError:
        acc.violation('C11:field-lost-or-changed', 'a transition action changed', dict(wit, yaml=y[:3000]))
        return
    script = gen_script(rnd, ch['events'], T['steps'])
    valseed, p_true = rnd.random(), rnd.choice((0.5, 0.8, 1.0))
    sides = []
    for s, tm in ((sc, tmap), (sc2, tmap2)):
        pr = Probes(val=make_val(valseed, p_true))
        it = Interpreter(s, initial_context=pr.context())
        sides.append((pr, Runner(it, tm, log=pr.log)))
    (pa, ra), (pb, rb) = sides
    k = 0
    for op in script:
        if op[0] != 'step':
            ra.apply(op)
            rb.apply(op)
            continue
        pa.stepno = pb.stepno = k
        oa = ra.apply(op) + (tuple((e[0], e[1]) for e in pa.log if e[0] in 'EXAU'),)
        ob = rb.apply(op) + (tuple((e[0], e[1]) for e in pb.log if e[0] in 'EXAU'),)
        if oa != ob:
            d = first_difference(oa, ob) or 'executed code differs'
            acc.violation('C11:reimport-behaves-differently', 'step %d: original vs re-import: %s' % (k, d),
                          dict(wit, script=script, step=k, yaml=y[:3000]))
            return
        acc.count('behaviour_steps_compared')
        k += 1
    f = features(ch)
    if f:
        acc.nontrivial((chart_digest(ch), 'b'), cls='behaviour')


def shipped_case(acc, rnd):
    files = sorted(glob.glob(os.path.join(REPO, 'tests/yaml/*.yaml')) + glob.glob(os.path.join(REPO, 'docs/examples/*/*.yaml'))
                   + glob.glob(os.path.join(REPO, 'docs/examples/*.yaml')))
    path = rnd.choice(files)
    sc = import_from_yaml(filepath=path)
    wit = dict(chart=path)
    y, sc2 = roundtrip(acc, sc, wit)
    if sc2 is None:
        return
    res = compare_structure(sc, sc2)
    msg = None if isinstance(res, int) else res
    if msg is None:
        msg = compare_eq(sc, sc2)
    if msg:
        acc.violation('C11:field-lost-or-changed', '%s: %s' % (path, msg), wit)
        return
    acc.count('shipped_roundtrips')
    acc.nontrivial((os.path.basename(path), 'shipped'), cls='shipped')


def finish_shard(acc, shard, nshards):
    if FILE[0] and os.path.exists(FILE[0]):
        os.remove(FILE[0])
