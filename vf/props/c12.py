"""C12 – import_from_yaml accepts only structurally sound statecharts (DESIGN §4 C12).

Fault injection with known-invalid mutants: every fault operator provably produces one of the faults listed in the
statement; a faulted document must be rejected with StatechartError (never accepted, never another exception);
valid documents must be accepted and the returned statechart must satisfy the structural rules (checked through the
public queries by an independent checker)."""
import copy
import json
import re

from ..common import import_sismic
from ..gen import gen_chart
from .. import build, torture

import_sismic()
from sismic.exceptions import StatechartError  # noqa: E402
from sismic.io import import_from_yaml  # noqa: E402
from sismic.model import (CompoundState, DeepHistoryState, FinalState, OrthogonalState,  # noqa: E402
                          ShallowHistoryState)

PID = 'C12'
LEVEL = 'fault_enumeration'
RULE = ('One case = one valid document derived from a generated chart (optional keys randomly present/absent: memory, initial, '
        'description, contracts, named/int priorities; YAML-significant names in 1/4 of the cases). The valid document must be '
        'accepted and pass the independent soundness checker. Then every applicable single fault at every state/transition '
        'position is injected (exhaustive over positions for that document) and, in the thorough tier, random pairs and '
        'triples of faults: each faulted document must raise StatechartError. Non-trivial = distinct (fault kind, kind of the '
        'state it is applied to) pairs exercised; every fault kind must be exercised.  Fault kinds include sections of the wrong shape '
        '(statechart / root state empty, list, scalar; scalar items in lists).  Thorough tier: random combinations of 2-3 faults, judged '
        'with a document-level reference validator (faults that cancel each other demand nothing).')
ASSUMPTIONS = ['not judged (ambiguous against the statement): initial on non-compound / memory on non-history states, empty child '
               'lists, name: null, float priorities, children under a final state, YAML syntax errors']
FAULTS = ['dup name', 'dup name root', 'transitions on final', 'transitions on history', 'unknown target', 'empty target',
          'near-miss target', 'history under orthogonal', 'history root', 'initial unknown', 'initial self', 'initial grandchild',
          'initial uncle', 'initial parent', 'memory self', 'memory unknown', 'memory non-sibling', 'unknown key top',
          'unknown key statechart', 'unknown key state', 'unknown key transition', 'unknown key contract', 'unknown type',
          'priority word', 'priority list', 'priority mapping', 'both kinds', 'missing statechart name', 'missing state name',
          'missing root state', 'transitions mapping', 'states scalar', 'contract scalar', 'parallel states scalar',
          'contract item scalar', 'statechart not a mapping', 'root state not a mapping', 'state item scalar',
          'transition item scalar']
REQUIRED_COUNTERS = ['permissive_import_of_same_text_first', 'valid_documents_accepted', 'faulted_documents_rejected', 'soundness_checks'] + ['fault_' + f for f in FAULTS]


def plan(tier):
    return dict(cases=160 if tier == 'quick' else 2000, shards=16, timeout=900 if tier == 'quick' else 3600)


class PlainCoder(build.Coder):
    def entry(self, ch, n):
        return None

    def exit(self, ch, n):
        return None

    def action(self, ch, t):
        return 'x = 1' if int(t['id'][1:]) % 3 == 0 else None

    def guard(self, ch, t):
        return 'True' if t['guard'] else None

    def cond(self, ch, owner_is_transition, cid, kind):
        return 'True'


def all_states(d, parent=None, acc=None):
    acc = [] if acc is None else acc
    acc.append((d, parent))
    for k in ('states', 'parallel states'):
        v = d.get(k)
        if isinstance(v, list):
            for c in v:
                if isinstance(c, dict):
                    all_states(c, d, acc)
    return acc


def kind_of(s):
    if isinstance(s.get('states'), list) and s.get('states'):
        return 'compound'
    if isinstance(s.get('parallel states'), list) and s.get('parallel states'):
        return 'orthogonal'
    return s.get('type', 'basic')


STATE_KEYS = {'name', 'type', 'on entry', 'on exit', 'states', 'parallel states', 'initial', 'memory', 'transitions', 'contract'}
TRANS_KEYS = {'target', 'event', 'guard', 'action', 'contract', 'priority'}


def doc_invalid(d):
    """Reference validator over the *document* (independent of sismic): a reason if the document breaks one of the rules the
    statement lists, None if it breaks none of them (the shapes the statement leaves open - see ASSUMPTIONS - are not judged).
    Used to tell whether the faults of a multi-fault document cancelled each other."""
    if not isinstance(d, dict) or set(d) != {'statechart'}:
        return 'top level'
    sc = d['statechart']
    if not isinstance(sc, dict):
        return 'statechart section is not a mapping'
    if set(sc) - {'name', 'description', 'preamble', 'root state'}:
        return 'unknown key in statechart section'
    if 'name' not in sc or 'root state' not in sc:
        return 'statechart lacks a name or a root state'
    names = []
    info = {}

    def contract(c):
        if not isinstance(c, list):
            return 'contract is not a list'
        for it in c:
            if not isinstance(it, dict) or not it or set(it) - {'before', 'after', 'always'}:
                return 'contract item'
        return None

    def state(s, parent):
        if not isinstance(s, dict):
            return 'state is not a mapping'
        if set(s) - STATE_KEYS:
            return 'unknown key in state'
        if 'name' not in s:
            return 'state without name'
        if 'type' in s and s['type'] not in ('final', 'shallow history', 'deep history'):
            return 'unknown type'
        if 'states' in s and 'parallel states' in s:
            return 'both states and parallel states'
        for k in ('states', 'parallel states', 'transitions'):
            if k in s and not isinstance(s[k], list):
                return '%s is not a list' % k
        if 'contract' in s:
            r = contract(s['contract'])
            if r:
                return r
        n = str(s['name'])
        names.append(n)
        kids = list(s.get('states', [])) + list(s.get('parallel states', []))
        info[n] = dict(s=s, parent=parent, kids=[str(c['name']) for c in kids if isinstance(c, dict) and 'name' in c],
                       compound=bool(s.get('states')), orth=bool(s.get('parallel states')))
        for t in s.get('transitions', []):
            if not isinstance(t, dict):
                return 'transition is not a mapping'
            if set(t) - TRANS_KEYS:
                return 'unknown key in transition'
            if 'priority' in t and t['priority'] not in ('high', 'low'):
                try:
                    int(t['priority'])
                except (TypeError, ValueError):
                    return 'priority'
            if 'contract' in t:
                r = contract(t['contract'])
                if r:
                    return r
        for c in kids:
            r = state(c, n)
            if r:
                return r
        return None
    r = state(sc['root state'], None)
    if r:
        return r
    if len(names) != len(set(names)):
        return 'duplicate names'
    for n, i in info.items():
        s = i['s']
        tp = s.get('type')
        if tp in ('shallow history', 'deep history'):
            if i['parent'] is None or not info[i['parent']]['compound']:
                return 'history state outside a compound state'
            if 'memory' in s and (str(s['memory']) == n or str(s['memory']) not in info[i['parent']]['kids']):
                return 'memory'
        if tp in ('final', 'shallow history', 'deep history') and s.get('transitions'):
            return 'transitions on a state that may not own any'
        if i['compound'] and 'initial' in s and str(s['initial']) not in i['kids']:
            return 'initial is not a direct child'
        for t in s.get('transitions', []):
            if 'target' in t and str(t['target']) not in info:
                return 'unknown target'
    return None


def single_faults(doc):
    """yield (label, state kind, position, fn) – fn(mutable doc copy) applies the fault in place."""
    root = doc['statechart']['root state']
    sts = all_states(root)
    names = [s['name'] for s, _ in sts]
    for idx, (s, p) in enumerate(sts):
        kind = kind_of(s)
        others = [n for n in names if n != s['name']]

        def at(f, idx=idx):
            def apply(d2):
                s2, p2 = all_states(d2['statechart']['root state'])[idx]
                return f(s2, p2, d2)
            return apply
        if others:
            o = others[idx % len(others)]
            yield ('dup name', kind, idx, at(lambda s2, p2, d2, o=o: s2.__setitem__('name', o)))
        if idx > 0:
            yield ('dup name root', kind, idx, at(lambda s2, p2, d2: s2.__setitem__('name', d2['statechart']['root state']['name'])))
        if kind == 'final':
            yield ('transitions on final', kind, idx, at(lambda s2, p2, d2, v=({'event': 'e'}, {})[idx % 2]: s2.__setitem__('transitions', [dict(v)])))
        if kind in ('shallow history', 'deep history'):
            yield ('transitions on history', kind, idx, at(lambda s2, p2, d2, e=idx % 3 == 0: s2.__setitem__('transitions', [{}] if e else [{'event': 'e', 'target': p2['name']}])))
            yield ('memory self', kind, idx, at(lambda s2, p2, d2: s2.__setitem__('memory', s2['name'])))
            yield ('memory unknown', kind, idx, at(lambda s2, p2, d2: s2.__setitem__('memory', 'NOPE')))
            sib = [c['name'] for c in p['states']]
            non = [n for n in names if n not in sib]
            if non:
                yield ('memory non-sibling', kind, idx, at(lambda s2, p2, d2, m=non[idx % len(non)]: s2.__setitem__('memory', m)))
        if kind in ('basic', 'compound', 'orthogonal'):
            def addt(td):
                return lambda s2, p2, d2: s2.setdefault('transitions', []).append(dict(td))
            yield ('unknown target', kind, idx, at(addt(dict({'target': ('NOPE', None)[idx % 4 == 3 and 'None' not in names], 'event': 'e'}, **({'guard': '  '} if idx % 3 == 1 else {})))))
            yield ('empty target', kind, idx, at(addt({'target': '', 'event': 'e'})))
            nm = names[idx % len(names)]
            near = nm + ' ' if not nm.endswith(' ') else nm.strip() + '_'
            if near not in names:
                yield ('near-miss target', kind, idx, at(addt({'target': near})))
            yield ('priority word', kind, idx, at(addt({'event': 'e', 'priority': ('urgent', 'High', 'LOW', 'high ', '')[idx % 5]})))
            yield ('priority list', kind, idx, at(addt({'event': 'e', 'priority': ([1], None)[idx % 2]})))
            yield ('priority mapping', kind, idx, at(addt({'event': 'e', 'priority': {'a': 1}})))
            yield ('unknown key transition', kind, idx, at(addt({'event': 'e', 'bogus': (1, None)[idx % 2]})))
            yield ('transitions mapping', kind, idx, at(lambda s2, p2, d2: s2.__setitem__('transitions', {'event': 'e'})))
            yield ('transition item scalar', kind, idx, at(lambda s2, p2, d2, v=(3, None, 'e')[idx % 3]: s2.setdefault('transitions', []).append(v)))
            if kind == 'compound':
                yield ('state item scalar', kind, idx, at(lambda s2, p2, d2, v=(3, None, 'x')[idx % 3]: s2['states'].append(v)))
            yield ('unknown key contract', kind, idx, at(addt({'event': 'e', 'contract': [{'sometimes': 'True'}]})))
        if kind == 'orthogonal':
            yield ('history under orthogonal', kind, idx,
                   at(lambda s2, p2, d2: s2['parallel states'].append({'name': 'HH', 'type': 'shallow history'})))
            yield ('both kinds', kind, idx, at(lambda s2, p2, d2: s2.__setitem__('states', [{'name': 'ZZ'}])))
            yield ('parallel states scalar', kind, idx, at(lambda s2, p2, d2: s2.__setitem__('parallel states', 'x')))
        if kind == 'compound':
            yield ('both kinds', kind, idx, at(lambda s2, p2, d2: s2.__setitem__('parallel states', [{'name': 'ZZ'}])))
            yield ('initial unknown', kind, idx, at(lambda s2, p2, d2: s2.__setitem__('initial', 'NOPE')))
            yield ('initial self', kind, idx, at(lambda s2, p2, d2: s2.__setitem__('initial', s2['name'])))
            gk = [g['name'] for c in s['states'] for g in (c.get('states') or []) + (c.get('parallel states') or [])]
            if gk:
                yield ('initial grandchild', kind, idx, at(lambda s2, p2, d2, g=gk[idx % len(gk)]: s2.__setitem__('initial', g)))
            if p is not None:
                yield ('initial parent', kind, idx, at(lambda s2, p2, d2: s2.__setitem__('initial', p2['name'])))
                unc = [c['name'] for c in (p.get('states') or p.get('parallel states') or []) if c['name'] != s['name']]
                if unc:
                    yield ('initial uncle', kind, idx, at(lambda s2, p2, d2, u=unc[0]: s2.__setitem__('initial', u)))
            yield ('states scalar', kind, idx, at(lambda s2, p2, d2: s2.__setitem__('states', 'x')))
        yield ('unknown key state', kind, idx, at(lambda s2, p2, d2, v=(1, None, '')[idx % 3]: s2.__setitem__('bogus', v)))
        yield ('unknown type', kind, idx, at(lambda s2, p2, d2, v=('weird', None, 'Final')[idx % 3]: s2.__setitem__('type', v)))
        yield ('missing state name', kind, idx, at(lambda s2, p2, d2: s2.pop('name')))
        yield ('contract scalar', kind, idx, at(lambda s2, p2, d2: s2.__setitem__('contract', 'x')))
        yield ('contract item scalar', kind, idx, at(lambda s2, p2, d2: s2.__setitem__('contract', ['True'])))
    yield ('missing statechart name', '-', -1, lambda d2: d2['statechart'].pop('name'))
    yield ('missing root state', '-', -1, lambda d2: d2['statechart'].pop('root state'))
    yield ('unknown key statechart', '-', -1, lambda d2: d2['statechart'].__setitem__('bogus', 1))
    yield ('unknown key statechart', '-', -2, lambda d2: d2['statechart'].__setitem__('bogus', None))
    yield ('unknown key top', '-', -1, lambda d2: d2.__setitem__('bogus', 1))
    yield ('unknown key top', '-', -2, lambda d2: d2.__setitem__('bogus', None))
    # sections of the wrong shape (a statechart section that is empty / a list / a scalar lacks both name and root state)
    for j, v in enumerate((None, [], 3, 'x')):
        yield ('statechart not a mapping', '-', -10 - j, lambda d2, v=v: d2.__setitem__('statechart', v))
        yield ('root state not a mapping', '-', -20 - j, lambda d2, v=v: d2['statechart'].__setitem__('root state', v))
    yield ('history root', '-', -1, lambda d2: d2['statechart'].__setitem__('root state', {'name': 'R', 'type': 'deep history'}))
    yield ('history root', '-', -2, lambda d2: d2['statechart']['root state'].__setitem__('type', 'shallow history'))


def sound(sc):
    """Independent structural checker over the public queries.  True or reason."""
    names = sc.states
    if len(names) != len(set(names)):
        return 'duplicate names'
    root = sc.root
    if root is None or root not in names:
        return 'no root'
    seen = set()
    todo = [root]
    while todo:
        n = todo.pop()
        if n in seen:
            return 'not a tree (%r reached twice)' % n
        seen.add(n)
        for c in sc.children_for(n):
            if sc.parent_for(c) != n:
                return 'parent/children disagree at %r' % c
            todo.append(c)
    if seen != set(names):
        return 'states not reachable from the root: %r' % sorted(set(names) - seen)
    for n in names:
        s = sc.state_for(n)
        p = sc.parent_for(n)
        if p is None and n != root:
            return 'second root %r' % n
        if isinstance(s, (ShallowHistoryState, DeepHistoryState)):
            if p is None or not isinstance(sc.state_for(p), CompoundState):
                return 'history state %r not inside a compound state' % n
            if s.memory is not None:
                if s.memory == n or s.memory not in sc.children_for(p):
                    return 'memory of %r is %r: not a sibling other than itself' % (n, s.memory)
        if isinstance(s, CompoundState) and s.initial is not None:
            if s.initial not in sc.children_for(n):
                return 'initial of %r is %r: not a direct child' % (n, s.initial)
    for t in sc.transitions:
        if t.source not in names:
            return 'transition from unknown state %r' % t.source
        if isinstance(sc.state_for(t.source), (FinalState, ShallowHistoryState, DeepHistoryState)):
            return 'transition from %r which may not own transitions' % t.source
        if t.target is not None and t.target not in names:
            return 'transition towards unknown state %r' % (t.target,)
    return True


def make_valid(rnd, ch):
    from .c11 import rename_chart, torture_names
    if rnd.random() < 0.25:
        smap, emap = torture_names(rnd, ch)
        if len(set(smap.values())) == len(smap):
            ch = rename_chart(ch, smap, emap)
    doc = build.to_document(ch, coder=PlainCoder())
    sts = all_states(doc['statechart']['root state'])
    hist = [s for s, _ in sts if s.get('type') in ('shallow history', 'deep history')]
    for h in hist:
        if rnd.random() < 0.35:
            h.pop('memory', None)
    for s, _ in sts:
        if 'initial' in s and rnd.random() < 0.15:
            s.pop('initial')
    if rnd.random() < 0.5:
        doc['statechart']['description'] = torture.text(rnd)
    return doc


def try_import(text):
    try:
        return 'accepted', import_from_yaml(text)
    except StatechartError as e:
        return 'rejected', e
    except Exception as e:      # noqa
        return 'other', e


def run_case(acc, rnd, tier, case):
    if case % 7 == 3:
        from .c11 import Y11
        import_from_yaml(Y11)           # a valid %YAML 1.1 document was imported earlier in this process
        acc.count('yaml_1_1_document_imported_before')
    ch = gen_chart(rnd, contracts=True, p_contract=0.25, max_states=rnd.choice((6, 9, 12)), max_depth=4, max_trans=8,
                   p_hist=0.5, p_final=0.3, mode=rnd.choice((None, 'history', 'orth')), priorities=(-3, -1, 0, 0, 1, 2))
    doc = make_valid(rnd, ch)
    text = build.dump_yaml(doc)
    verdict, res = try_import(text)
    wit = dict(document=text[:4000])
    if verdict != 'accepted':
        acc.violation('C12:valid-document-rejected', 'a valid document was not accepted: %s: %s' % (type(res).__name__, str(res)[:200]), wit)
        return
    acc.count('valid_documents_accepted')
    s = sound(res)
    acc.count('soundness_checks')
    if s is not True:
        acc.violation('C12:accepted-unsound', 'import of a valid document returned an unsound statechart: %s' % s, wit)
        return
    faults = list(single_faults(doc))
    for label, kind, idx, fn in faults:
        d2 = copy.deepcopy(doc)
        fn(d2)
        if not judge(acc, d2, [(label, kind, idx)], wit):
            return
    if tier == 'thorough':
        for _ in range(60):
            k = rnd.choice((2, 2, 3))
            chosen = rnd.sample(faults, min(k, len(faults)))
            d2 = copy.deepcopy(doc)
            applied = []
            for label, kind, idx, fn in chosen:
                try:
                    fn(d2)
                    applied.append((label, kind, idx))
                except (IndexError, KeyError, TypeError, AttributeError):
                    pass        # an earlier fault removed the position this one applies to
            if applied:
                acc.count('multi_fault_documents')
                if not judge(acc, d2, applied, wit):
                    return
    acc.sample(dict(states=len(ch['states']), single_faults=len(faults), first=[f[:3] for f in faults[:5]]), limit=2)


def judge(acc, d2, applied, wit):
    # two thirds of the mutants travel as JSON text (a YAML flow-style document, much faster to produce)
    if (len(applied) + applied[0][2]) % 3:
        # (characters a YAML stream may not contain verbatim, or that it treats as line breaks, travel as \uXXXX escapes)
        text = re.sub('[\x7f-\x9f\u2028\u2029\ufeff\ufffe\uffff]', lambda m: '\\u%04x' % ord(m.group()), json.dumps(d2, ensure_ascii=False))
        acc.count('documents_as_flow_style_json')
    else:
        text = build.dump_yaml(d2)
        acc.count('documents_as_block_yaml')
    if (len(text) + len(applied)) % 5 == 0:
        # the same text was loaded before with the checks switched off: the default import must still reject it
        try:
            import_from_yaml(text, ignore_schema=True, ignore_validation=True)
        except Exception:       # noqa
            pass
        acc.count('permissive_import_of_same_text_first')
    verdict, res = try_import(text)
    labels = [a[0] for a in applied]
    why = doc_invalid(d2)
    if why is None:
        if len(applied) == 1:
            acc.note_inconclusive('fault %r produced a document the reference validator finds nothing wrong with' % (applied[0],))
            return True
        # the faults of a combination cancelled each other (two renames that swap names...): nothing to demand
        acc.count('multi_fault_documents_that_cancelled_out')
        return True
    if verdict == 'accepted':
        s = sound(res)
        acc.violation('C12:faulty-document-accepted', 'document with fault(s) %r (reference validator: %s) was accepted (soundness checker on the result: %s)'
                      % (labels, why, s), dict(wit, faults=applied, faulted=text[:4000]))
        return False
    if verdict == 'other':
        acc.violation('C12:wrong-exception-type', 'document with fault(s) %r raised %s (%s) instead of StatechartError'
                      % (labels, type(res).__name__, str(res)[:200]), dict(wit, faults=applied, faulted=text[:4000]))
        return False
    acc.count('faulted_documents_rejected')
    if len(applied) == 1:
        label, kind, idx = applied[0]
        acc.count('fault_' + label)
        acc.nontrivial((label, kind), cls=label)
    return True
