"""Per-property metadata for the checks served by vf.execmon (C01–C06)."""

COMMON_ASSUME = [
    'statecharts are drawn from the seeded generator of DESIGN.md §2 (well-formed, bounded size) – shapes outside '
    'its bounds are not explored',
    'the reference model (vf/refmodel.py) is a faithful restatement of the documented semantics; it never imports sismic',
    'guard valuations are a pure function of (step number, guard id); clock values and delays are dyadic rationals',
    'workload variants shared by C01-C06 (vf/execmon.py): builds through the API, YAML, an export/import round trip or a detour of '
    'edits (move, rename, rotate, re-add, junk) on warm caches; exact twin transitions; names with format-significant characters; '
    'priorities beyond the small-integer cache; a user-defined evaluator; clocks pre-advanced up to epoch magnitudes; an earlier '
    'interpreter on the same Statechart; a first call aborted by a failing listener; a run that goes on with a deep copy of the '
    'interpreter; every form of queue(); every returned MacroStep is re-read after the following steps (it may not change)',
]

META = {
    'C01': dict(
        rule='One case = one generated statechart (API or YAML build) driven for 40/90 execute_once calls with random '
             'queue()/clock moves and a seeded guard valuation; after every step the fired transition set, the consumed '
             'event and the event seen by every guard probe are compared with the documented selection rule '
             '(reference model).  Non-trivial = distinct (chart digest, step) pairs in which the rule really '
             'discriminated: priority pre-emption, inner-first pruning, or eventless pre-emption happened.  Workload variants: plain '
             'after()/idle() guards (mode timed), a guard text that is also the action text of another transition, charts reached '
             'through a detour of edits, an earlier interpreter on the same Statechart object.',
        assumptions=COMMON_ASSUME,
        required=['steps_monitored', 'guard_probes', 'rule_priority_preempt', 'rule_inner_first_prune',
                  'rule_eventless_preempts_pending_event'],
        modes=[('select', 7, dict(p_guard=0.75, max_trans=18, min_trans=5)), ('clash', 1, dict(p_guard=0.6)),
               ('orth', 2, dict(p_orth=0.45, p_guard=0.7)),
               ('timed', 2, dict(p_orth=0.45, timed_plain=0.7, p_guard=0.3, p_internal=0.3))],
    ),
    'C02': dict(
        rule='Same driver, charts biased to orthogonal content and to transitions that enter states nested in regions '
             'from outside; after every normal return of execute_once the configuration is judged by legal() written '
             'against the abstract chart; runs continue after final.  Non-trivial = distinct (chart, configuration) '
             'pairs reached with an orthogonal state active; configurations reached by entering a region descendant '
             'from outside are counted separately and must be > 0.',
        assumptions=COMMON_ASSUME,
        required=['steps_monitored', 'configs_with_orthogonal_active', 'region_descendant_entered_from_outside',
                  'c02_post_final_steps', 'shipped_steps_checked'],
        modes=[('legal', 5, dict(p_orth=0.45, p_final=0.3)), ('history', 3, dict(p_hist=0.8, p_orth=0.4, p_compound=0.45, min_states=6)),
               ('orth', 2, dict(p_orth=0.5, p_hist=0.4))],
    ),
    'C03': dict(
        rule='Every state and transition carries entry/exit/action probes; after every step the probe log must equal '
             'the sequence described by the returned MacroStep (exits, action, entries per micro step, sends per micro '
             'step), the order rules (source depth/name order, innermost-first exits, outermost-first entries, name '
             'order of orthogonal siblings, stable before next transition) are checked on the MacroStep and the '
             'configuration is recomputed micro step by micro step.  Non-trivial = distinct steps with >= 2 '
             'transitions, an exit list of >= 3 states, or an orthogonal state entered/exited.',
        assumptions=COMMON_ASSUME + ['order between cousins / between default entries of different branches is not judged'],
        required=['steps_monitored', 'c03_trace_checks', 'c03_multi_transition_steps', 'c03_orth_sibling_lists',
                  'shipped_steps_checked'],
        modes=[('order', 6, dict(p_orth=0.5, max_trans=16, p_state_send=0.15)), ('legal', 2, dict(p_orth=0.45)),
               ('history', 2, dict(p_hist=0.7, p_orth=0.4, p_state_send=0.15))],
    ),
    'C04': dict(
        rule='"clash" charts (duplicated triggers, same-source transitions under orthogonal parents / on the root, '
             'region-leaving transitions); the model classifies every pair of selected transitions; the exact exception '
             'class, atomicity (nothing ran, configuration/context unchanged, event still pending afterwards) and the '
             'absence of errors for pairwise-orthogonal selections are checked.  Non-trivial = distinct (chart, step, '
             'pair class) with >= 2 selected transitions.',
        assumptions=COMMON_ASSUME,
        required=['steps_monitored', 'expected_error_steps'],
        modes=[('clash', 8, dict(p_orth=0.4, p_guard=0.4)), ('orth', 2, dict(p_orth=0.5, p_guard=0.3))],
    ),
    'C05': dict(
        rule='Every queued/sent event carries a unique id; a two-queue model (due time, insertion order) predicts the '
             'event of every step; at the end the clock is moved past every due time and the queues are drained: every '
             'event consumed exactly once.  Non-trivial = distinct (chart, step) where an internal/external race, an '
             'equal-due tie, a due-exactly-now boundary or a not-yet-due internal head occurred.  Variants: negative delays, the same '
             'Event instance queued several times, queue(n1, n2, **params); 1 case in 12 is a threaded scenario (two threads '
             'queue while a third executes, controlled scheduler with line-level yields).',
        assumptions=COMMON_ASSUME + ['negative delays are part of the workload (the due time is t+d also for d<0, as in the repository\'s own test_delay)', '1 case in 12 is a threaded scenario (queue() from two threads while a third calls execute_once) under the controlled scheduler of vf/sched.py'],
        required=['threaded_schedules', 'threaded_events_exactly_once', 'steps_monitored', 'events_consumed', 'c05_drained_runs', 'c05_internal_before_due_external',
                  'c05_equal_due_tie', 'c05_due_exactly_now', 'c05_external_while_internal_not_due'],
        modes=[('queue', 8, dict(p_send=0.5, p_state_send=0.15, p_notify=0.15, delays=(0, 0, 0, 0.125, 1, 1, 2, 5, -1, -0.125))), ('orth', 2, dict(p_send=0.5, p_orth=0.45))],
    ),
    'C06': dict(
        rule='history-heavy charts; the model records what was active under each history parent at its last exit '
             '(from its own replay of the documented semantics, never from Interpreter internals) and every restoring '
             'micro step is compared (set, parents before children), then the configuration.  Non-trivial = distinct '
             '(chart, history state, restored set) with restored set != default memory.',
        assumptions=COMMON_ASSUME,
        required=['steps_monitored', 'c06_restores', 'c06_non_default_restores', 'c06_default_memory_restores',
                  'c06_deep_restores_3plus'],
        modes=[('history', 6, dict(p_hist=0.8, p_compound=0.55, p_orth=0.25, min_states=5)),
               ('history', 4, dict(p_hist=0.8, p_compound=0.4, p_orth=0.45, min_states=7))],
    ),
}
