"""C18 – a pickled or deep-copied interpreter continues exactly like the original (DESIGN §4 C18).

Crash-point enumeration + differential monitor among three real interpreters: control (never snapshotted),
original (snapshotted at boundary k, continues) and restored (pickle round trip / deepcopy taken at k)."""
import copy
import hashlib
import pickle

from ..common import import_sismic
from ..gen import chart_digest, gen_chart
from ..lockstep import Runner, first_difference, freeze, gen_script
from .. import build

import_sismic()
from sismic.interpreter import Interpreter  # noqa: E402
from sismic.model import BasicState, CompoundState, Statechart, Transition  # noqa: E402

PID = 'C18'
LEVEL = 'fault_enumeration'
RULE = ('One case = a generated chart with contracts reading __old__, history states, delayed sends, optionally bound to a second '
        'interpreter (cycle) and monitored by a recording property statechart; the probe log lives in the context so that it '
        'travels with the snapshot. For sampled (quick) / every (thorough) macro-step boundary k and for both pickle and '
        'copy.deepcopy: the inputs are replayed up to k, the snapshot is taken, and from k on control / original / restored are '
        'driven in lock-step: identical macro steps, configurations, contexts (incl. the in-context log with the __old__ values '
        'seen by conditions), error kinds, and identical behaviour of the bound interpreter and the property statechart. '
        'Non-trivial = distinct (chart, k, method) where at k a delayed event was pending, a history memory differed from its '
        'default, or a live __old__ snapshot existed.  Every pickle protocol, second-generation snapshots, guards and conditions using '
        'after()/idle(), running clocks over a scripted time source, an empty-context scenario without probes.')
ASSUMPTIONS = ['context values are picklable (module-level functions, ints, lists)', 'snapshots are taken at macro-step boundaries only']
REQUIRED_COUNTERS = ['second_generation_snapshots', 'empty_context_cases', 'pickle_snapshots_protocol_0_or_1', 'snapshots_with_running_clock', 'snapshots_compared', 'steps_compared_after_snapshot', 'snapshots_with_pending_delayed_event',
                     'snapshots_with_live_old', 'snapshots_with_history_memory', 'pickle_snapshots', 'deepcopy_snapshots',
                     'snapshots_with_bound_and_property', 'old_reads_after_restore']
TIERS = dict(quick=dict(steps=24, ks=4, gen=dict(max_states=10, max_depth=4, max_trans=12)),
             thorough=dict(steps=40, ks=1000, gen=dict(max_states=14, max_depth=5, max_trans=18)))


def plan(tier):
    return dict(cases=800 if tier == 'quick' else 4000, shards=16, timeout=900 if tier == 'quick' else 3600)


# ---- module-level (hence picklable) helpers living in the interpreters' contexts ------------------------------------
def G(vseed, stepno, tid, thr):
    h = hashlib.blake2b(('%s/%d/%s' % (vseed, stepno, tid)).encode(), digest_size=4).digest()
    return int.from_bytes(h, 'big') < thr


def H(key):
    """used as a guard by one transition and, same text, as the whole action of another one"""
    import zlib
    return zlib.crc32(key.encode()) % 3 != 0


def K(log, cid, tm, old):
    log.append(('K', cid, tm, old))
    return True


class CtxCoder(build.Coder):
    def __init__(self, vseed, thr):
        self.vseed, self.thr = vseed, thr

    def _sends(self, sends):
        out = []
        for s in sends:
            fn = 'send' if s['kind'] == 'send' else 'notify'
            out.append('uid = uid + 1')
            # the payload aliases a mutable object of the context (mutated by every later fragment)
            if s.get('delay'):
                out.append('%s(%r, u=uid, delay=%r, ref=shared)' % (fn, s['name'], s['delay']))
            else:
                out.append('%s(%r, u=uid, ref=shared)' % (fn, s['name']))
        return out

    def entry(self, ch, n):
        # (the documented setdefault(): a variable that may be defined for the first time after a snapshot was taken)
        return '\n'.join(["log.append(('E', %r, time))" % n, 'v = v + 1', 'shared.append(v)', 'nest["l"].append(v)',
                          "setdefault('first_%s', stepno)" % ''.join(c for c in n if c.isalnum())]
                         + self._sends(ch['states'][n]['sends_entry']))

    def exit(self, ch, n):
        return '\n'.join(["log.append(('X', %r, time))" % n, 'v = v + 1'] + self._sends(ch['states'][n]['sends_exit']))

    def action(self, ch, t):
        if t.get('action_text'):
            return 'H(%r)' % t['action_text']        # the very text that is the guard of another transition
        return '\n'.join(["log.append(('A', %r, event.u if event else None, len(event.data['ref']) if event and 'ref' in event.data "
                          "else None, event.data.get('ref') is shared if event else None, time))" % t['id'], 'v = v + 1',
                          'shared.append(v)'] + self._sends(t['sends']))

    def guard(self, ch, t):
        if t.get('gkey'):
            return 'H(%r)' % t['gkey']
        g = 'G(%r, stepno, %r, %d)' % (self.vseed, t['id'], self.thr) if t['guard'] else None
        k = int(t['id'][1:])
        if k % 3 == 0:
            # entry and idle stamps are part of what a snapshot has to carry
            tp = ('idle(1)', 'after(2)', 'idle(2) or after(5)')[(k // 3) % 3]
            g = '(%s) and (%s)' % (tp, g) if g else tp
        return g

    def cond(self, ch, owner_is_transition, cid, kind):
        if kind == 'pre':
            return 'K(log, %r, time, None)' % cid
        return 'K(log, %r, time, (__old__.v, len(__old__.nest["l"]), after(1), idle(1), idle(2))) and __old__.v <= v' % cid


def make_prop(sc, clock):
    return Interpreter(sc, clock=clock, initial_context={'log': []})


def recording_property():
    sc = Statechart('recorder')
    sc.add_state(CompoundState('proot', initial='w'), None)
    sc.add_state(BasicState('w'), 'proot')
    for n in ('step started', 'step ended', 'event consumed', 'event sent', 'state exited', 'state entered',
              'transition processed', 'm0', 'm1'):
        sc.add_transition(Transition('w', None, event=n, action='log.append((event.name, time))'))
    return sc


def peer_chart():
    """Second interpreter: counts what it receives and echoes a delayed event back."""
    sc = Statechart('peer')
    sc.add_state(CompoundState('peer_root', initial='p'), None)
    sc.add_state(BasicState('p'), 'peer_root')
    for e in ('e0', 'e1', 'e2', 'e3', 'zz'):
        sc.add_transition(Transition('p', None, event=e, action="log.append(('recv', event.name, event.u, time))\n"
                                                                "send('zz', u=-event.u, delay=1)" if e != 'zz' else
                                                                "log.append(('recv', event.name, event.u, time))"))
    return sc


class Src:
    """Scripted replacement of sismic.clock.clock.time (module attribute, interposed from outside)."""
    now = 1000.0

    def __call__(self):
        return Src.now


class World:
    """The object graph that is snapshotted as a whole."""
    running = False

    def __init__(self, ch, coder, with_peers):
        self.sc, _ = build.build_api(ch, coder=coder)
        self.it = Interpreter(self.sc, initial_context=dict(log=[], shared=[], nest={'l': []}, v=0, uid=1000, stepno=0, G=G, K=K, H=H))
        self.peer = None
        self.prop = None
        if with_peers:
            self.peer = Interpreter(peer_chart(), initial_context={'log': []})
            self.it.bind(self.peer)
            self.peer.bind(self.it)             # cycle
            made = []

            def klass(sc, clock):
                p = make_prop(sc, clock)
                made.append(p)
                return p
            self.it.bind_property_statechart(recording_property(), interpreter_klass=klass)
            self.prop = made[0]
        # a plain closure as listener (a GUI callback, a logger): copy.deepcopy shares functions, the copy keeps calling it
        self.heard = []
        self.closure = (lambda m, _h=self.heard: _h.append(m.name))
        self.it.attach(self.closure)
        self.last_heard = 0

    def parts(self):
        return (self.it, self.peer, self.prop)


def snapshot(world, method, protocol=None, generations=1):
    parts = world.parts()
    if method == 'pickle':
        it, peer, prop = pickle.loads(pickle.dumps(parts, protocol=protocol))
    else:
        it, peer, prop = copy.deepcopy(parts)
    if generations > 1:
        # a snapshot of the restored interpreter (second generation) is a snapshot like any other
        if method == 'pickle':
            it, peer, prop = pickle.loads(pickle.dumps((it, peer, prop), protocol=protocol))
        else:
            it, peer, prop = copy.deepcopy((it, peer, prop))
    w = World.__new__(World)
    w.heard, w.closure, w.last_heard = world.heard, world.closure, 0
    w.it, w.peer, w.prop = it, peer, prop
    w.sc = it.statechart
    w.running = world.running
    return w


def apply(world, op, k):
    """One script op on the whole world; returns an observation for 'step' ops."""
    it = world.it
    if op[0] == 'queue':
        from sismic.model import Event
        objs = []
        for name, uid, d, pr in op[1]:
            kw = dict(pr, u=uid)
            if d:
                kw['delay'] = d
            objs.append(Event(name, **kw))
        it.queue(*objs)
        return None
    if op[0] == 'clock':
        if world.running:
            return None         # real time is advanced once for all worlds by the driver (the clocks are started)
        it.clock.time += op[1]
        if world.peer is not None:
            world.peer.clock.time += op[1]
        return None
    it.context['stepno'] = k
    mark = len(it.context['log'])
    h0 = len(world.heard)
    try:
        step = it.execute_once()
        o = ('step', project(step))
    except Exception as e:      # noqa
        o = ('raise', (type(e).__name__, str(e)[:80]))
    world.last_heard = len(world.heard) - h0
    o = o + (tuple(it.configuration), freeze({kk: vv for kk, vv in it.context.items() if kk != 'log' and not callable(vv)}),
             it.final, freeze(it.context['log'][mark:]), it.time)
    if world.peer is not None:
        try:
            ps = world.peer.execute_once()
            o = o + (('peer', project(ps), tuple(world.peer.configuration), freeze(world.peer.context['log'][-6:]),
                      len(world.peer.context['log'])),)
        except Exception as e:  # noqa
            o = o + (('peer-raise', type(e).__name__),)
        o = o + (('prop', len(world.prop.context['log']), freeze(world.prop.context['log'][-4:]), world.prop.time),)
    return o


def project(step):
    if step is None:
        return None
    micro = []
    for ms in step.steps:
        t = ms.transition
        micro.append(((t.source, t.target, t.event, t.action) if t is not None else None, tuple(ms.exited_states),
                      tuple(ms.entered_states), tuple((type(e).__name__, e.name, freeze(e.data)) for e in ms.sent_events)))
    ev = step.event
    return (step.time, None if ev is None else (type(ev).__name__, ev.name, freeze(ev.data)), tuple(micro))


def empty_context_case(acc, rnd, tier):
    """No initial context, no preamble: the first states are entered while the context is still empty, so what __old__ holds for
    them is an *empty* snapshot.  No probes (they would populate the context): conditions read __old__ as the mapping it is,
    original and restored are compared on what they return / raise."""
    sc = Statechart('empty')
    root = CompoundState('root', initial='a', on_entry=rnd.choice((None, None, 'r = 1')))
    root.invariants.append("len(__old__) == 0")
    sc.add_state(root, None)
    names = ['a', 'b', 'c']
    for n in names:
        st = BasicState(n, on_entry=rnd.choice((None, None, '%s_seen = 1' % n, 'x = 7')))
        st.invariants.append(rnd.choice(("len(__old__) < 9", "'zzz' not in __old__", "__old__.get('x', 7) == 7",
                                         "sorted(__old__) == sorted(k for k in __old__)")))
        if rnd.random() < 0.5:
            st.postconditions.append("__old__ is not None and len(dict(__old__)) <= 9")
        sc.add_state(st, 'root')
    for n in names:
        sc.add_transition(Transition(n, rnd.choice(names), event='go', action=rnd.choice((None, 'g = 2', 'x = x + 1'))))
        t = Transition(n, None, event='tick', action=rnd.choice((None, None, 'c = 1')))
        t.postconditions.append(rnd.choice(("len(__old__) <= 9", "'c' not in __old__ or __old__['c'] == 1")))
        sc.add_transition(t)
    script = [rnd.choice(('go', 'tick', 'tick', 'zz', None)) for _ in range(rnd.randint(3, 8))]

    def step(it, ev):
        if ev is not None:
            it.queue(ev)
        try:
            r = ('step', project(it.execute_once()))
        except Exception as e:      # noqa
            r = ('raise', type(e).__name__, str(e)[:120])
        return r + (tuple(it.configuration), freeze(dict(it.context)))
    acc.count('empty_context_cases')
    for kb in range(len(script)):
        for method, protocol in [('pickle', p) for p in range(pickle.HIGHEST_PROTOCOL + 1)] + [('deepcopy', None)]:
            orig = Interpreter(sc)
            restored = None
            for k, ev in enumerate(script):
                if k == kb:
                    try:
                        restored = pickle.loads(pickle.dumps(orig, protocol=protocol)) if method == 'pickle' else copy.deepcopy(orig)
                    except Exception as e:      # noqa
                        acc.violation('C18:snapshot-raised', '%s (protocol %r) of an interpreter that started with an empty context '
                                      'raised %s: %s' % (method, protocol, type(e).__name__, str(e)[:200]), dict(script=script, k=kb))
                        return
                oo = step(orig, ev)
                if restored is not None:
                    orr = step(restored, ev)
                    if orr != oo:
                        acc.violation('C18:restored-differs', '%s (protocol %r) at boundary %d of an interpreter that started with an '
                                      'empty context: at step %d the original gives %r, the restored one %r'
                                      % (method, protocol, kb, k, oo[:3], orr[:3]),
                                      dict(script=script, k=kb, method=method, protocol=protocol, step=k,
                                           chart=[(s, sc.state_for(s).on_entry, list(sc.state_for(s).invariants)) for s in sc.states]))
                        return
                    acc.count('steps_compared_after_snapshot')
            acc.count('snapshots_compared')
            acc.klass('empty_context', (kb, method, protocol, tuple(script)))


def run_case(acc, rnd, tier, case):
    if case % 10 == 7:
        return empty_context_case(acc, rnd, tier)
    T = TIERS[tier]
    ch = gen_chart(rnd, contracts=True, p_contract=0.45, mode=rnd.choice(('history', 'history', None, 'orth')), p_hist=0.6,
                   p_send=0.5, p_state_send=0.15, delays=(0, 0, 1, 1, 2, 5), allow_inner_history=rnd.random() < 0.5, p_notify=0.2,
                   p_shared_text=0.4,
                   **T['gen'])
    coder = CtxCoder(repr(rnd.random()), int(rnd.choice((0.5, 0.8, 1.0)) * 2 ** 32))
    with_peers = rnd.random() < 0.5
    script = gen_script(rnd, ch['events'], T['steps'], p_clock=0.4)
    nsteps = sum(1 for op in script if op[0] == 'step')
    dg = chart_digest(ch)
    wit = dict(chart=ch, script=script, with_peers=with_peers)
    running = rnd.random() < 0.25
    if running:
        acc.count('cases_with_running_clock')
        return running_clock_case(acc, rnd, tier, ch, coder, with_peers, script, nsteps, dg, wit)
    # control run (never snapshotted), also tells what is pending at each boundary
    ctrl = World(ch, coder, with_peers)
    ctrl_obs = []
    boundary_info = []
    k = 0
    for op in script:
        if op[0] == 'step':
            it = ctrl.it
            # evidence classification only (never part of a verdict): what is pending at this boundary
            qs = list(getattr(it, '_internal_queue', [])) + list(getattr(it, '_external_queue', []))
            boundary_info.append(dict(
                delayed=any(t > it.clock.time for t, _ in qs), memory=bool(getattr(it, '_memory', None)),
                old=bool(getattr(getattr(it, '_evaluator', None), '_memory', None))))
            ctrl_obs.append(apply(ctrl, op, k))
            k += 1
        else:
            apply(ctrl, op, k)
    ks = list(range(1, nsteps))
    if len(ks) > T['ks']:
        # prefer boundaries where something interesting is pending
        interesting = [i for i in ks if boundary_info[i]['delayed'] or boundary_info[i]['old'] or boundary_info[i]['memory']]
        rnd.shuffle(interesting)
        rest = [i for i in ks if i not in interesting]
        rnd.shuffle(rest)
        ks = sorted((interesting + rest)[:T['ks']])
    for kb in ks:
        for method in (('pickle', 'deepcopy') if tier == 'thorough' else (rnd.choice(('pickle', 'deepcopy')),)):
            orig = World(ch, coder, with_peers)
            k = 0
            restored = None
            restored_first = rnd.random() < 0.5     # which of the two is stepped first must not matter: they share nothing
            protocol = rnd.choice((None, None, 0, 1, 2, 3, 4, 5))       # every pickle protocol is "serialised with pickle"
            if method == 'pickle' and protocol is not None and protocol < 2:
                acc.count('pickle_snapshots_protocol_0_or_1')
            for op in script:
                if op[0] == 'step' and k == kb and restored is None:
                    try:
                        if method == 'pickle' and orig.closure is not None:
                            orig.it.detach(orig.closure)        # (a closure cannot be pickled: not part of that snapshot)
                            orig.closure = None
                        gens = 2 if rnd.random() < 0.3 else 1
                        if gens == 2:
                            acc.count('second_generation_snapshots')
                        restored = snapshot(orig, method, protocol, gens)
                    except Exception as e:      # noqa
                        acc.violation('C18:snapshot-raised', '%s of the interpreter at boundary %d raised %s: %s' %
                                      (method, kb, type(e).__name__, str(e)[:200]), dict(wit, k=kb, method=method, protocol=protocol))
                        return
                if op[0] == 'step':
                    if restored is not None and restored_first:
                        orr = apply(restored, op, k)
                        oo = apply(orig, op, k)
                    else:
                        oo = apply(orig, op, k)
                    if restored is not None:
                        if not restored_first:
                            orr = apply(restored, op, k)
                        oc = ctrl_obs[k]
                        if oo != oc:
                            acc.violation('C18:snapshot-disturbed-original', '%s at boundary %d: the original differs from a run '
                                          'that was never snapshotted at step %d: %s' % (method, kb, k, describe(oc, oo)),
                                          dict(wit, k=kb, method=method, protocol=protocol, step=k))
                            return
                        if orr != oo:
                            acc.violation('C18:restored-differs', '%s at boundary %d: restored interpreter differs from the original '
                                          'at step %d: %s' % (method, kb, k, describe(oo, orr)),
                                          dict(wit, k=kb, method=method, protocol=protocol, step=k))
                            return
                        if method == 'deepcopy' and restored.last_heard != orig.last_heard:
                            acc.violation('C18:restored-differs', 'deepcopy at boundary %d: in step %d the closure attached as listener '
                                          'heard %d meta-events from the original and %d from the copy' % (kb, k, orig.last_heard, restored.last_heard),
                                          dict(wit, k=kb, method=method, step=k))
                            return
                        acc.count('steps_compared_after_snapshot')
                        acc.count('old_reads_after_restore', sum(1 for e in orr[5] if e[0] == 'K' and e[3] is not None))
                    k += 1
                else:
                    apply(orig, op, k)
                    if restored is not None:
                        apply(restored, op, k)
            acc.count('snapshots_compared')
            acc.count(method + '_snapshots')
            info = boundary_info[kb]
            if with_peers:
                acc.count('snapshots_with_bound_and_property')
            if info['delayed']:
                acc.count('snapshots_with_pending_delayed_event')
            if info['old']:
                acc.count('snapshots_with_live_old')
            if info['memory']:
                acc.count('snapshots_with_history_memory')
            if info['delayed'] or info['old'] or info['memory']:
                acc.nontrivial((dg, kb, method), cls=method)
    acc.sample(dict(states=len(ch['states']), boundaries=ks[:10], with_peers=with_peers, steps=nsteps))


def describe(a, b):
    names = ['outcome', 'step', 'configuration', 'context', 'final', 'log of this step', 'time', 'peer', 'property']
    if a[0] != b[0]:
        return 'outcome %r vs %r' % (a[:2] if a[0] == 'raise' else a[0], b[:2] if b[0] == 'raise' else b[0])
    for i, (x, y) in enumerate(zip(a, b)):
        if x != y:
            nm = names[min(i, len(names) - 1)]
            return '%s: %r vs %r' % (nm, str(x)[:300], str(y)[:300])
    return 'lengths differ'


def running_clock_case(acc, rnd, tier, ch, coder, with_peers, script, nsteps, dg, wit):
    """Same comparison with started clocks (speed 2) over a scripted real-time source: control, original and restored are
    driven simultaneously (they share the time source), one snapshot boundary per run."""
    import sismic.clock.clock as clockmod
    old = clockmod.time
    clockmod.time = Src()
    T = TIERS[tier]
    try:
        ks = list(range(1, nsteps))
        rnd.shuffle(ks)
        for kb in ks[:max(2, min(T['ks'], 6))]:
            method = rnd.choice(('pickle', 'deepcopy'))
            Src.now = 1000.0
            worlds = []
            for _ in range(2):
                w = World(ch, coder, with_peers)
                w.running = True
                w.it.clock.speed = 2
                w.it.clock.start()
                if w.peer is not None:
                    w.peer.clock.start()
                worlds.append(w)
            ctrl, orig = worlds
            restored = None
            protocol = rnd.choice((None, None, 0, 1, 2, 3, 4, 5))
            k = 0
            for op in script:
                if op[0] == 'clock':
                    Src.now += op[1]
                    continue
                if op[0] == 'step' and k == kb and restored is None:
                    try:
                        if method == 'pickle' and orig.closure is not None:
                            orig.it.detach(orig.closure)        # (a closure cannot be pickled: not part of that snapshot)
                            orig.closure = None
                        restored = snapshot(orig, method, protocol)
                    except Exception as e:      # noqa
                        acc.violation('C18:snapshot-raised', '%s at boundary %d (running clock) raised %s: %s' %
                                      (method, kb, type(e).__name__, str(e)[:200]), dict(wit, k=kb, method=method, protocol=protocol))
                        return
                oc = apply(ctrl, op, k)
                oo = apply(orig, op, k)
                orr = apply(restored, op, k) if restored is not None else None
                if op[0] == 'step':
                    if oo != oc:
                        acc.violation('C18:snapshot-disturbed-original', '%s at boundary %d with a started clock: the original differs '
                                      'from a run that was never snapshotted at step %d: %s' % (method, kb, k, describe(oc, oo)),
                                      dict(wit, k=kb, method=method, step=k, running_clock=True))
                        return
                    if orr is not None and orr != oo:
                        acc.violation('C18:restored-differs', '%s at boundary %d with a started clock: restored differs from the '
                                      'original at step %d: %s' % (method, kb, k, describe(oo, orr)),
                                      dict(wit, k=kb, method=method, step=k, running_clock=True))
                        return
                    if orr is not None:
                        acc.count('steps_compared_after_snapshot')
                    k += 1
            acc.count('snapshots_compared')
            acc.count('snapshots_with_running_clock')
            acc.count(method + '_snapshots')
            acc.nontrivial((dg, kb, method, 'running'), cls=method)
    finally:
        clockmod.time = old
