"""C02 – see DESIGN.md §4 C02.  Workload mode 'legal' of the shared execution monitor (vf.execmon)."""
from .. import execmon, shipped
from ._exec_meta import META

MODE = 'legal'
PID = 'C02'
LEVEL = 'exploration'
RULE = META[PID]['rule']
ASSUMPTIONS = META[PID]['assumptions']
REQUIRED_COUNTERS = META[PID]['required'] + ['big_charts_entered']


def plan(tier):
    return dict(cases=6000 if tier == "quick" else 60000, shards=16, timeout=600 if tier == 'quick' else 3000)


def big_case(acc, rnd):
    """One macro step that needs many default entries: an orthogonal state with 100+ compound regions, or 100+ nested compound
    states entered through their initial children.  However many micro steps it takes, the configuration returned is stable."""
    from ..common import import_sismic
    import_sismic()
    from sismic.interpreter import Interpreter
    from sismic.model import BasicState, CompoundState, OrthogonalState, Statechart
    n = rnd.choice((60, 101, 130, 257))
    sc = Statechart('big')
    want = ['root']
    if rnd.random() < 0.5:
        shape = 'wide'
        sc.add_state(CompoundState('root', initial='O'), None)
        sc.add_state(OrthogonalState('O'), 'root')
        want.append('O')
        for i in range(n):
            sc.add_state(CompoundState('r%03d' % i, initial='l%03d' % i), 'O')
            sc.add_state(BasicState('l%03d' % i), 'r%03d' % i)
            want += ['r%03d' % i, 'l%03d' % i]
    else:
        shape = 'deep'
        sc.add_state(CompoundState('root', initial='c000'), None)
        for i in range(n):
            sc.add_state(CompoundState('c%03d' % i, initial='c%03d' % (i + 1) if i + 1 < n else 'leaf'), 'root' if i == 0 else 'c%03d' % (i - 1))
            want.append('c%03d' % i)
        sc.add_state(BasicState('leaf'), 'c%03d' % (n - 1))
        want.append('leaf')
    it = Interpreter(sc)
    it.execute_once()
    acc.count('big_charts_entered')
    got = set(it.configuration)
    if got != set(want):
        acc.violation('C02:illegal-configuration', 'a %s chart (%d %s): after the first execute_once %d of the %d states that have to be '
                      'active are (missing e.g. %r): default entries remain to be made'
                      % (shape, n, 'regions' if shape == 'wide' else 'nested compound states', len(got & set(want)), len(want),
                         sorted(set(want) - got)[:3]), dict(shape=shape, n=n))


def run_case(acc, rnd, tier, case):
    if case % 60 == 31:
        return big_case(acc, rnd)
    if case % 20 == 19:
        return shipped.run_case(acc, rnd, PID, 50 if tier == 'quick' else 120)
    modes = META[PID]['modes']
    mode, _, kw = rnd.choices(modes, weights=[m[1] for m in modes])[0]
    acc.count('mode_' + mode)
    execmon.run_case(acc, rnd, tier, case, mode, PID, gen_kw=kw)
