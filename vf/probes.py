"""Probes handed to generated statecharts through the documented ``initial_context`` (DESIGN §3.1)."""
import hashlib


def make_val(valseed, p_true):
    """Deterministic guard valuation: pure function of (step number, guard id)."""
    if p_true >= 1.0:
        return lambda stepno, tid: True
    if p_true <= 0.0:
        return lambda stepno, tid: False
    thr = int(p_true * 2 ** 32)

    def val(stepno, tid):
        h = hashlib.blake2b(('%s/%d/%s' % (valseed, stepno, tid)).encode(), digest_size=4).digest()
        return int.from_bytes(h, 'big') < thr
    return val


def ev_id(ev):
    """How an event is identified in logs: its unique id if it carries one."""
    if ev is None:
        return None
    try:
        return ev.u
    except AttributeError:
        return 'noid:%s' % ev.name


class Probes:
    def __init__(self, val=None, first_uid=1000):
        self.log = []
        self.uid = first_uid
        self.val = val or (lambda stepno, tid: True)
        self.stepno = 0
        self.cond_plan = None       # callable(cid, occurrence_index) -> bool, for C08
        self.cond_count = 0
        self.guard_sees_actions = False

    def U(self):
        self.uid += 1
        self.log.append(('U', self.uid))
        return self.uid

    def context(self, **extra):
        log = self.log

        def E(n, tm):
            log.append(('E', n, tm))

        def X(n, tm):
            log.append(('X', n, tm))

        def A(t, ev, tm):
            log.append(('A', t, ev_id(ev), tm))

        def G(t, ev, tm):
            log.append(('G', t, ev_id(ev), tm))
            if self.guard_sees_actions:
                # a guard asked again after some action of the same call has run may well answer differently (the log is
                # cleared before every call): the transitions of a macro step are chosen before any of them is processed
                n_a = sum(1 for e in log if e[0] == 'A')
                if n_a:
                    return self.val(self.stepno, '%s#%d' % (t, n_a))
            return self.val(self.stepno, t)

        def K(cid, tm, old_v):
            i = self.cond_count
            self.cond_count += 1
            verdict = True if self.cond_plan is None else self.cond_plan(cid, i)
            log.append(('K', cid, tm, old_v, i, verdict))
            return verdict

        def T(pid, owner, tm, a, i):
            log.append(('T', pid, owner, tm, a, i))
            return (a is None or a) and (i is None or i)

        def H(key):
            log.append(('H', key))
            return self.val(self.stepno, key)

        def HE(key, ev):
            log.append(('H', key))
            return self.val(self.stepno, key + ('+' if ev is not None else '-'))

        def S(cid, *values):
            log.append(('S', cid) + tuple(values))
            return True

        def W():
            return any(e[0] in ('E', 'X', 'A') for e in log)

        def U():                # (a plain function, not a bound method: copying the context must not copy the probes)
            return self.U()

        d = dict(E=E, X=X, A=A, G=G, K=K, T=T, H=H, HE=HE, W=W, S=S, U=U)
        d.update(extra)
        return d

    def listener(self, interpreter=None):
        log = self.log

        def on_meta(m):
            if interpreter is not None:
                interpreter.configuration       # reading the configuration while a step is under way is harmless
            log.append(('M', m.name, dict(m.data)))
        return on_meta


def ticking_clock():
    """A legitimate clock whose value grows with every reading (like UtcClock or a started SimulatedClock)."""
    from sismic.clock import Clock

    class TickingClock(Clock):
        def __init__(self):
            self._now = 0.0

        @property
        def time(self):
            self._now += 0.125
            return self._now

        @time.setter
        def time(self, v):
            self._now = v
    return TickingClock()
