"""Seeded generator of *abstract* well-formed statecharts (DESIGN.md §2).

The abstract description is plain dicts/lists; both the sismic Statechart (vf.build) and the
reference model (vf.refmodel) are derived from it, so that no sismic query leaks into an oracle.
"""
import string

TKINDS = ('basic', 'compound', 'orthogonal')       # kinds that may own transitions
HKINDS = ('shallow', 'deep')

DEFAULTS = dict(
    max_states=12, max_depth=4, n_events=3, p_orth=0.3, p_compound=0.45, p_hist=0.25, p_final=0.15,
    p_eventless=0.25, p_internal=0.2, p_guard=0.6, min_trans=2, max_trans=14,
    p_send=0.25, p_state_send=0.08, p_notify=0.3, delays=(0, 0, 0, 0.125, 1, 1, 2, 5),
    contracts=False, p_contract=0.5, timed=False, timed_plain=0.0, mode=None, priorities=(-1, 0, 0, 0, 1, 2),
    min_states=3, root_basic_ok=0.05, allow_inner_history=False, p_shared_text=0.0, p_event_guard=0.0, p_active_call=0.0, p_twin=0.0, p_odd_names=0.0, p_hier_names=0.0, p_short_names=0.15,
)


class Tree:
    """Structural helpers over the abstract description (independent of sismic)."""

    def __init__(self, chart):
        self.ch = chart
        self.st = chart['states']
        self._anc = {}
        self._desc = {}

    def parent(self, n):
        return self.st[n]['parent']

    def kind(self, n):
        return self.st[n]['kind']

    def children(self, n):
        return self.st[n]['children']

    def anc(self, n):
        """proper ancestors, nearest first"""
        r = self._anc.get(n)
        if r is None:
            r = []
            p = self.st[n]['parent']
            while p is not None:
                r.append(p)
                p = self.st[p]['parent']
            self._anc[n] = r
        return r

    def desc(self, n):
        r = self._desc.get(n)
        if r is None:
            r = []
            todo = [n]
            while todo:
                x = todo.pop()
                for c in self.st[x]['children']:
                    r.append(c)
                    todo.append(c)
            self._desc[n] = r
        return r

    def depth(self, n):
        return len(self.anc(n)) + 1

    def lcaos(self, a, b):
        """deepest state that is ancestor-or-self of both"""
        ca = [a] + self.anc(a)
        cb = set([b] + self.anc(b))
        for x in ca:
            if x in cb:
                return x
        return None

    def crosses_regions(self, s, t):
        A = self.lcaos(s, t)
        return self.st[A]['kind'] == 'orthogonal' and A not in (s, t)

    def orth_ancestors(self, n):
        return [a for a in self.anc(n) if self.st[a]['kind'] == 'orthogonal']

    def in_region(self, n):
        """True if some proper ancestor is orthogonal"""
        return bool(self.orth_ancestors(n))


ODD = ['n{0}', '{k}', 'a}b', '{', '%s', 'x%(y)s', "q'r", 'sp ace', 'dot.ted', 'a:b', '#h', '{on,off}', 'split{}', '100%', 'back\\slash',
       'n{0!r}', '$x', 'tab\tbed', 'é{è}', 'Wk', 'wk', 'WK', 'straße', 'STRASSE']


def _names(rnd, k, p_odd=0.0, p_short=0.15):
    if p_odd and rnd.random() < p_odd:
        # names with characters that mean something to str.format / % / YAML / shells: a name is just a name
        names = _names(rnd, k, 0.0, 0.0)
        odd = rnd.sample(ODD, min(len(ODD), rnd.randint(3, 8)))
        for i, o in enumerate(odd):
            names[rnd.randrange(min(len(names), 14))] = o
        out = []
        for n in names:
            if n not in out:
                out.append(n)
        return out + ['w%d' % i for i in range(k - len(out))]
    if rnd.random() < p_short:
        # short names: single letters and pairs of letters (a name may be a substring / a character of another one)
        letters = rnd.sample(string.ascii_lowercase, 12)
        pool = list(letters) + [a + b for a in letters for b in letters if a != b]
        rnd.shuffle(pool)
        singles = [n for n in pool if len(n) == 1]
        rest = [n for n in pool if len(n) == 2]
        names = singles[:6] + rest[:k]
        rnd.shuffle(names)
        return names[:k] if len(names) >= k else names + ['z%d' % i for i in range(k - len(names))]
    letters = rnd.sample(string.ascii_lowercase, 26)
    names = ['%s%d' % (letters[i % 26], i) for i in range(k)]
    rnd.shuffle(names)
    return names


def gen_chart(rnd, **kw):
    o = dict(DEFAULTS)
    o.update(kw)
    mode = o['mode']
    for _attempt in range(50):
        ch = _gen_structure(rnd, o)
        if ch is None:
            continue
        ch['_allow_inner_history'] = bool(o['allow_inner_history'])
        _gen_transitions(rnd, ch, o)
        if o['contracts']:
            _gen_contracts(rnd, ch, o)
        problems = wellformed(ch)
        if o['allow_inner_history']:
            problems = [p for p in problems if not p.startswith('history entered from inside')]
        if problems:
            raise AssertionError('generator produced ill-formed chart: %s' % problems)
        ch['mode'] = mode
        ch['timed_plain'] = bool(o['timed_plain'])
        return ch
    raise AssertionError('generator failed to produce a chart')


def _gen_structure(rnd, o):
    names = iter(_names(rnd, 80, o.get('p_odd_names', 0.0), o.get('p_short_names', 0.15)))
    st = {}
    order = []

    hier = o.get('p_hier_names', 0.0) and rnd.random() < o['p_hier_names']

    def new(kind, parent):
        n = next(names)
        if hier:
            # hierarchical naming convention: main, main_left, main_left_on ... (a name is a prefix / substring of others)
            n = 'm' if parent is None else '%s_%s' % (parent, n[:1] if rnd.random() < 0.6 else n)
            while n in st:
                n += 'x'
        st[n] = dict(kind=kind, parent=parent, children=[], initial=None, memory=None,
                     sends_entry=[], sends_exit=[], contracts=dict(pre=[], post=[], inv=[]))
        order.append(n)
        if parent is not None:
            st[parent]['children'].append(n)
        return n

    budget = [rnd.randint(o['min_states'], o['max_states'])]

    def build(parent, depth):
        if depth >= o['max_depth'] or budget[0] <= 0:
            kind = 'basic'
        else:
            r = rnd.random()
            if r < o['p_orth']:
                kind = 'orthogonal'
            elif r < o['p_orth'] + o['p_compound']:
                kind = 'compound'
            else:
                kind = 'basic'
        n = new(kind, parent)
        budget[0] -= 1
        if kind == 'compound':
            k = rnd.randint(1, 3)
            kids = [build(n, depth + 1) for _ in range(k)]
            if rnd.random() < o['p_final']:
                kids.append(new('final', n))
                budget[0] -= 1
            # initial: mostly a non-final child
            nonfinal = [c for c in kids if st[c]['kind'] != 'final']
            st[n]['initial'] = rnd.choice(nonfinal if rnd.random() < 0.9 else kids)
            if rnd.random() < o['p_hist']:
                h = new(rnd.choice(HKINDS), n)
                budget[0] -= 1
                st[h]['memory'] = rnd.choice(kids)
                if rnd.random() < 0.15:
                    st[n]['initial'] = h        # as in tests/yaml/history.yaml: the history state is the initial state
                if rnd.random() < (0.3 if o['mode'] == 'history' else 0.08):
                    h2 = new(rnd.choice(HKINDS), n)     # two history states in one compound
                    st[h2]['memory'] = rnd.choice(kids)
        elif kind == 'orthogonal':
            k = rnd.choice((1, 2, 2, 2, 3)) if rnd.random() < 0.1 else rnd.choice((2, 2, 3))
            for _ in range(k):
                build(n, depth + 1)
        return n

    root = build(None, 1)
    if st[root]['kind'] == 'basic' and rnd.random() > o['root_basic_ok']:
        return None
    for s in st.values():
        rnd.shuffle(s['children'])
    # declaration order: any order with parents before children; shuffle siblings/branches
    order2 = []
    frontier = [root]
    while frontier:
        i = rnd.randrange(len(frontier))
        n = frontier.pop(i)
        order2.append(n)
        frontier.extend(st[n]['children'])
    events = ['e%d' % i for i in range(o['n_events'])]
    return dict(name='g', root=root, states=st, order=order2, transitions=[], events=events,
                preamble=None, description=None)


def _pick_target(rnd, ch, tr, s, order, bias=None):
    st = ch['states']
    inner_ok = ch.get('_allow_inner_history')
    for _ in range(30):
        if bias:
            t = rnd.choice(bias)
        else:
            t = rnd.choice(order)
        if tr.crosses_regions(s, t):
            continue
        if st[t]['kind'] in HKINDS and not inner_ok:
            par = st[t]['parent']
            if s == par or s in tr.desc(par):
                continue
        return t
    return None


def _sends(rnd, ch, o, p):
    out = []
    while rnd.random() < p and len(out) < 3:
        if rnd.random() < o['p_notify']:
            out.append(dict(kind='notify', name='m%d' % rnd.randint(0, 1), delay=0))
        else:
            out.append(dict(kind='send', name=rnd.choice(ch['events'] + ['zz']),
                            delay=rnd.choice(o['delays'])))
            if not out[-1]['delay'] and rnd.random() < 0.25:
                out[-1]['zero'] = True      # the code says delay=0 explicitly (a computed delay that happens to be zero)
        p = p * 0.5
    return out


def _gen_transitions(rnd, ch, o):
    st = ch['states']
    tr = Tree(ch)
    order = ch['order']
    mode = o['mode']
    sources = [n for n in order if st[n]['kind'] in TKINDS]
    hist = [n for n in order if st[n]['kind'] in HKINDS]
    nested_in_region = [n for n in order if len(tr.anc(n)) >= 2 and
                        any(st[a]['kind'] == 'orthogonal' for a in tr.anc(n)[1:])]
    trans = []

    def mk(s, t, ev=..., **extra):
        if ev is ...:
            ev = None if rnd.random() < o['p_eventless'] else rnd.choice(ch['events'])
        guard = rnd.random() < (0.9 if ev is None else o['p_guard'])
        if ev is None and (t is None or t == s):
            guard = True
        d = dict(id='t%d' % len(trans), source=s, target=t, event=ev, guard=guard,
                 priority=rnd.choice(o['priorities']), sends=_sends(rnd, ch, o, o['p_send']),
                 contracts=dict(pre=[], post=[], inv=[]), tguard=None)
        d.update(extra)
        if o['timed'] and rnd.random() < 0.7:
            d['tguard'] = dict(after=rnd.choice(TIMED_D) if rnd.random() < 0.7 else None,
                               idle=rnd.choice(TIMED_D) if rnd.random() < 0.5 else None)
        elif o['timed_plain'] and rnd.random() < o['timed_plain']:
            # plain time predicates (no probe, so that several transitions can carry textually identical guards)
            a = rnd.choice(PLAIN_D) if rnd.random() < 0.75 else None
            i = rnd.choice(PLAIN_D) if (a is None or rnd.random() < 0.35) else None
            d['tguard'] = dict(after=a, idle=i, plain=True)
        trans.append(d)
        return d

    nt = rnd.randint(o['min_trans'], o['max_trans'])
    for _ in range(nt):
        s = rnd.choice(sources)
        if rnd.random() < o['p_internal']:
            mk(s, None)
            continue
        bias = None
        r = rnd.random()
        if hist and r < (0.5 if mode == 'history' else 0.15):
            bias = hist
        elif nested_in_region and r < (0.6 if mode in ('legal', 'orth') else 0.3):
            bias = nested_in_region
        t = _pick_target(rnd, ch, tr, s, order, bias) or _pick_target(rnd, ch, tr, s, order)
        mk(s, t)

    # forced shapes -----------------------------------------------------------------------------
    # (a) a transition from outside an orthogonal state to a state nested inside one of its regions
    if nested_in_region and rnd.random() < (0.95 if mode == 'legal' else 0.6):
        for _ in range(10):
            t = rnd.choice(nested_in_region)
            orths = [a for a in tr.anc(t)[1:] if st[a]['kind'] == 'orthogonal']
            P = rnd.choice(orths)
            outside = [n for n in sources if n != P and n not in tr.desc(P)]
            outside = [n for n in outside if not tr.crosses_regions(n, t)]
            if st[t]['kind'] in HKINDS:
                par = st[t]['parent']
                outside = [n for n in outside if n != par and n not in tr.desc(par)]
            if outside:
                mk(rnd.choice(outside), t, ev=rnd.choice(ch['events']), guard=rnd.random() < 0.3)
                break
    # (b) history: make sure parents of history states are left and re-entered through them
    if hist and mode == 'history':
        for h in hist:
            par = st[h]['parent']
            inside = [n for n in [par] + tr.desc(par) if st[n]['kind'] in TKINDS]
            outside = [n for n in sources if n != par and n not in tr.desc(par)
                       and not tr.crosses_regions(n, h)]
            if outside and rnd.random() < 0.9:
                mk(rnd.choice(outside), h, ev=rnd.choice(ch['events']), guard=rnd.random() < 0.3)
            if inside and outside and rnd.random() < 0.9:
                s = rnd.choice(inside)
                cands = [n for n in outside if not tr.crosses_regions(s, n)]
                if cands:
                    mk(s, rnd.choice(cands), ev=rnd.choice(ch['events']), guard=rnd.random() < 0.3)
            # moves between siblings inside the parent so that the memory differs from the default
            kids = [c for c in st[par]['children'] if st[c]['kind'] in TKINDS]
            if len(kids) >= 2 and rnd.random() < 0.9:
                a, b = rnd.sample(kids, 2)
                mk(a, b, ev=rnd.choice(ch['events']), guard=rnd.random() < 0.3)
    # (c) clash: several enabled transitions at once
    if mode == 'clash':
        for _ in range(rnd.randint(1, 4)):
            r = rnd.random()
            if r < 0.35 and trans:
                # duplicate the trigger of an existing transition on the same source
                b = rnd.choice(trans)
                t = _pick_target(rnd, ch, tr, b['source'], order) if rnd.random() < 0.7 else None
                mk(b['source'], t, ev=b['event'], guard=rnd.random() < 0.4, priority=b['priority'])
            elif r < 0.5:
                ev = rnd.choice(ch['events'])
                root = ch['root']
                if st[root]['kind'] in TKINDS:
                    for _k in range(2):
                        mk(root, None if rnd.random() < 0.5 else _pick_target(rnd, ch, tr, root, order),
                           ev=ev, guard=rnd.random() < 0.3, priority=0)
            elif r < 0.8:
                # same event in several regions of one orthogonal state
                orths = [n for n in order if st[n]['kind'] == 'orthogonal']
                if orths:
                    P = rnd.choice(orths)
                    ev = rnd.choice(ch['events'])
                    for reg in st[P]['children']:
                        cands = [n for n in [reg] + tr.desc(reg) if st[n]['kind'] in TKINDS]
                        s = rnd.choice(cands)
                        inside = [reg] + tr.desc(reg)
                        if rnd.random() < 0.25:
                            # region-leaving transition: target is P itself or further out
                            outs = [P] + [a for a in tr.anc(P)]
                            t = rnd.choice(outs)
                            if st[t]['kind'] in HKINDS or tr.crosses_regions(s, t):
                                t = P
                        else:
                            t = _pick_target(rnd, ch, tr, s, order, inside)
                        mk(s, t, ev=ev, guard=rnd.random() < 0.3)
            else:
                # parent and child both react (inner-first must prune, not clash)
                comps = [n for n in sources if st[n]['children']]
                if comps:
                    p = rnd.choice(comps)
                    kids = [c for c in tr.desc(p) if st[c]['kind'] in TKINDS]
                    if kids:
                        ev = rnd.choice(ch['events'])
                        mk(p, None, ev=ev, guard=False)
                        mk(rnd.choice(kids), None, ev=ev, guard=rnd.random() < 0.5)
    # (d) orth: shared events between regions
    if mode in ('orth', 'order'):
        orths = [n for n in order if st[n]['kind'] == 'orthogonal']
        for P in orths:
            if rnd.random() < 0.8:
                ev = rnd.choice(ch['events'])
                for reg in st[P]['children']:
                    cands = [n for n in [reg] + tr.desc(reg) if st[n]['kind'] in TKINDS]
                    s = rnd.choice(cands)
                    t = _pick_target(rnd, ch, tr, s, order, [reg] + tr.desc(reg))
                    if t == reg and s == reg:
                        t = None
                    mk(s, t, ev=ev, guard=rnd.random() < 0.2)
            # leave P as a whole from outside-in and back
            outside = [n for n in sources if n != P and n not in tr.desc(P) and P not in tr.desc(n)]
            if outside and rnd.random() < 0.7:
                b = rnd.choice(outside)
                if not tr.crosses_regions(P, b):
                    mk(P, b, ev=rnd.choice(ch['events']), guard=rnd.random() < 0.3)
                if not tr.crosses_regions(b, P):
                    mk(b, P, ev=rnd.choice(ch['events']), guard=rnd.random() < 0.3)
    # state entry/exit sends
    for n in order:
        if rnd.random() < o['p_state_send']:
            st[n]['sends_entry'] = _sends(rnd, ch, o, 1.0)[:1]
        if rnd.random() < o['p_state_send']:
            st[n]['sends_exit'] = _sends(rnd, ch, o, 1.0)[:1]
    # the same source text used as the guard of one transition and as the (whole) action of another one
    if o['p_shared_text'] and rnd.random() < o['p_shared_text'] and len(trans) >= 2:
        a, b = rnd.sample(trans, 2)
        key = 'k%s' % b['id'][1:]
        b['guard'] = True
        b['gkey'] = key                 # b's guard is H(key) ...
        b['tguard'] = None
        a['action_text'] = key          # ... and a's action is the very same text H(key)
        a['sends'] = []
    # one guard text on an eventless and on an event-triggered transition of the same state, whose answer depends on the event it
    # is shown (HE(key, event)): the first is asked without the pending event, the second with the event that is consumed
    if o['p_event_guard'] and rnd.random() < o['p_event_guard']:
        bysrc = {}
        for t in trans:
            bysrc.setdefault(t['source'], []).append(t)
        cands = [(a, b) for ts in bysrc.values() for a in ts for b in ts
                 if a['event'] is None and b['event'] is not None and not (a.get('gkey') or b.get('gkey'))
                 and not (a.get('tguard') or b.get('tguard')) and not (a.get('action_text') or b.get('action_text'))]
        if cands:
            a, b = rnd.choice(cands)
            for t in (a, b):
                t['guard'] = True
                t['ekey'] = 'v%s' % b['id'][1:]
    # documented active() predicate called from executable code (its value is discarded)
    if o['p_active_call']:
        for n in order:
            if rnd.random() < o['p_active_call']:
                st[n]['active_call'] = rnd.choice(order)
        for t in trans:
            if rnd.random() < o['p_active_call']:
                t['active_call'] = rnd.choice(order)
    if trans and o['p_twin'] and rnd.random() < (o['p_twin'] if mode == 'clash' else o['p_twin'] / 3):
        # an exact twin: a second, separately declared transition equal to an existing one in every field (same code
        # text as well: 'code_id').  Two transitions are two transitions, however alike they look.
        import copy as _copy
        b = rnd.choice(trans)
        d = _copy.deepcopy(b)            # (made last: nothing changes one of the two afterwards)
        d['id'] = 't%d' % len(trans)
        d['code_id'] = b.get('code_id') or b['id']
        trans.append(d)
    rnd.shuffle(trans)
    ch['transitions'] = trans


TIMED_D = (0, 0.125, 0.5, 1, 1, 1.5, 2, 2, 3, 5)
PLAIN_D = (1, 1, 2, 2, 5)


def _gen_contracts(rnd, ch, o):
    st = ch['states']
    p = o['p_contract']
    for n in ch['order']:
        c = st[n]['contracts']
        for kind in ('pre', 'post', 'inv'):
            k = 0
            while rnd.random() < p * (0.6 ** k) and k < 3:
                c[kind].append('%s.%s%d' % (n, kind, k))
                k += 1
    for t in ch['transitions']:
        if t.get('code_id'):
            continue
        c = t['contracts']
        for kind in ('pre', 'post', 'inv'):
            k = 0
            while rnd.random() < p * (0.6 ** k) and k < 3:
                c[kind].append('%s.%s%d' % (t['id'], kind, k))
                k += 1
    byid = {t['id']: t for t in ch['transitions']}
    for t in ch['transitions']:
        if t.get('code_id'):            # an exact twin has the very same contract
            t['contracts'] = {k: list(v) for k, v in byid[t['code_id']]['contracts'].items()}


def wellformed(ch):
    """Independent re-check of W1–W8 on the abstract description; returns list of problems."""
    st = ch['states']
    tr = Tree(ch)
    pb = []
    roots = [n for n, s in st.items() if s['parent'] is None]
    if roots != [ch['root']]:
        pb.append('roots %r' % roots)
    if st[ch['root']]['kind'] not in TKINDS:
        pb.append('root kind')
    for n, s in st.items():
        if not n:
            pb.append('empty name')
        for c in s['children']:
            if st[c]['parent'] != n:
                pb.append('parent/children %s/%s' % (n, c))
        k = s['kind']
        if k == 'compound':
            if not s['children']:
                pb.append('compound without children %s' % n)
            if s['initial'] not in s['children']:
                pb.append('initial of %s' % n)
        elif k == 'orthogonal':
            if not s['children']:
                pb.append('orthogonal without children %s' % n)
            for c in s['children']:
                if st[c]['kind'] not in TKINDS:
                    pb.append('region kind %s' % c)
        elif s['children']:
            pb.append('leaf kind with children %s' % n)
        if k in HKINDS:
            par = s['parent']
            if par is None or st[par]['kind'] != 'compound':
                pb.append('history parent %s' % n)
            elif s['memory'] not in st[par]['children'] or s['memory'] == n or \
                    st[s['memory']]['kind'] in HKINDS:
                pb.append('memory of %s' % n)
    ids = set()
    for t in ch['transitions']:
        if t['id'] in ids:
            pb.append('dup id')
        ids.add(t['id'])
        if st[t['source']]['kind'] not in TKINDS:
            pb.append('source kind %s' % t['id'])
        if t['target'] is not None:
            if t['target'] not in st:
                pb.append('target unknown')
                continue
            if tr.crosses_regions(t['source'], t['target']):
                pb.append('crosses regions %s' % t['id'])
            if st[t['target']]['kind'] in HKINDS:
                par = st[t['target']]['parent']
                if t['source'] == par or t['source'] in tr.desc(par):
                    pb.append('history entered from inside %s' % t['id'])
    return pb


def shape_classes(ch):
    """Shape classes counted in the evidence."""
    st = ch['states']
    tr = Tree(ch)
    cl = set()
    kinds = [s['kind'] for s in st.values()]
    if 'orthogonal' in kinds:
        cl.add('has_orthogonal')
    if any(s['kind'] == 'orthogonal' and tr.in_region(n) for n, s in st.items()):
        cl.add('has_nested_orthogonal')
    if 'shallow' in kinds:
        cl.add('has_shallow_history')
    if 'deep' in kinds:
        cl.add('has_deep_history')
    for n, s in st.items():
        if s['kind'] == 'deep':
            if any(st[d]['kind'] == 'orthogonal' for d in tr.desc(s['parent'])):
                cl.add('has_deep_history_over_orthogonal')
        if s['kind'] in HKINDS and tr.in_region(n):
            cl.add('has_history_in_region')
    if 'final' in kinds:
        cl.add('has_final')
    by_src = {}
    for t in ch['transitions']:
        by_src.setdefault((t['source'], t['event']), []).append(t['priority'])
        if t['target'] is not None:
            tgt_orths = [a for a in tr.anc(t['target'])[1:] if st[a]['kind'] == 'orthogonal'] \
                if len(tr.anc(t['target'])) >= 2 else []
            for P in tgt_orths:
                if t['source'] != P and t['source'] not in tr.desc(P):
                    cl.add('enters_region_from_outside')
            if st[t['target']]['kind'] in HKINDS:
                cl.add('targets_history')
        if t['target'] is None:
            cl.add('has_internal')
        if t['event'] is None:
            cl.add('has_eventless')
    if any(len(set(v)) > 1 for v in by_src.values()):
        cl.add('has_priority_clash')
    if any(len(v) > len(set(v)) for v in by_src.values()):
        cl.add('has_same_priority_same_trigger')
    return cl


def chart_digest(ch):
    from .common import digest
    return digest(dict(states=ch['states'], root=ch['root'], order=ch['order'],
                       transitions=ch['transitions']))
