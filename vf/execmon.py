"""Execution monitor shared by C01–C06: real interpreter vs reference model + trace-spec checks.

One generated statechart, one input history; after *every* execute_once all six oracles are
evaluated.  Findings are tagged with the property they refute; a check reports only its own tag.
"""
from collections import Counter

from .common import import_sismic
from .gen import HKINDS, Tree, chart_digest, gen_chart, shape_classes
from .probes import Probes, ev_id, make_val
from .refmodel import RefModel, legal
from .orderrules import order_rules
from .lockstep import first_difference, project_step
from . import build

import_sismic()
from sismic.interpreter import Interpreter  # noqa: E402
from sismic.code import Evaluator, PythonEvaluator  # noqa: E402
from sismic.clock import SimulatedClock  # noqa: E402
from fractions import Fraction  # noqa: E402
from sismic.model import Event, InternalEvent, MetaEvent  # noqa: E402
from sismic.exceptions import ConflictingTransitionsError, NonDeterminismError  # noqa: E402

DT = (0.125, 0.5, 1, 1, 1, 2, 5)
DELAYS = (0, 0, 0, 0.125, 1, 1, 2, 5)
DELAYS_NEG = (0, 0, 0, 0.125, 1, 1, 2, 5, -1, -0.125, -5, Fraction(1, 2), Fraction(2))     # the repository's own tests queue events with a negative delay

TIER = dict(
    quick=dict(steps=40, gen=dict(max_states=12, max_depth=4, max_trans=14)),
    thorough=dict(steps=90, gen=dict(max_states=20, max_depth=5, max_trans=28, n_events=4)),
)


class Finding(Exception):
    pass


class DelegatingEvaluator(Evaluator):
    """A user-defined evaluator (documented extension point): only the two abstract primitives are provided, everything
    else - evaluate_guard, execute_action, ... - is the *base class* behaviour."""

    def __init__(self, interpreter=None, *, initial_context=None):
        self._py = PythonEvaluator(interpreter, initial_context=initial_context)

    @property
    def context(self):
        return self._py.context

    def _evaluate_code(self, code, *, additional_context=None):
        return self._py._evaluate_code(code, additional_context=additional_context)

    def _execute_code(self, code, *, additional_context=None):
        return self._py._execute_code(code, additional_context=additional_context)


class Case:
    """State of one monitored run."""

    def __init__(self, acc, rnd, tier, case, mode, focus, gen_kw=None, via=None):
        self.acc, self.rnd, self.tier, self.case, self.mode, self.focus = acc, rnd, tier, case, mode, focus
        kw = dict(TIER[tier]['gen'])
        kw.update(p_shared_text=0.15, p_active_call=0.1, p_twin=0.15, p_odd_names=0.08, p_hier_names=0.1,
                  priorities=(-1, 0, 0, 0, 1, 2) if rnd.random() < 0.85 else (-1000, 0, 0, 1000, 1000, 2 ** 70))
        kw.update(gen_kw or {})
        self.ch = gen_chart(rnd, mode=mode, **kw)
        self.tr = Tree(self.ch)
        self.st = self.ch['states']
        self.tdict = {t['id']: t for t in self.ch['transitions']}
        if any(t.get('ekey') for t in self.ch['transitions']):
            acc.count('charts_with_one_guard_text_on_an_eventless_and_an_event_transition')
        if any(t.get('code_id') for t in self.ch['transitions']):
            acc.count('charts_with_exact_twin_transitions')
        self.digest = chart_digest(self.ch)
        self.via = via or rnd.choice(('api', 'api', 'yaml', 'edited', 'roundtrip'))
        self.detours = None
        if self.via == 'edited':
            r = build.build_edited(self.ch, rnd)
            if r is None:
                acc.count('edited_build_did_not_lead_back')
                self.via = 'api'
            else:
                self.sc, self.tmap, self.detours = r
        if self.via == 'api':
            self.sc, self.tmap = build.build_api(self.ch)
        elif self.via == 'yaml':
            self.sc, self.tmap = build.build_yaml(self.ch)
        elif self.via == 'roundtrip':
            self.sc, self.tmap = build.build_roundtrip(self.ch)
        p_true = rnd.choice((0.3, 0.6, 0.6, 0.9, 1.0, 0.0))
        self.p_true = p_true
        self.val = make_val(rnd.random(), p_true)
        self.force_false = False
        self.pr = Probes(val=lambda stepno, tid: (False if self.force_false else self.val(stepno, tid)))
        self.pr.guard_sees_actions = True
        if rnd.random() < 0.2:
            # another interpreter ran on the very same Statechart object before: nothing may leak through the model
            acc.count('cases_with_earlier_interpreter_on_same_statechart')
            pre = Interpreter(self.sc, initial_context=Probes(val=make_val(rnd.random(), 0.8)).context())
            for _ in range(15):
                if rnd.random() < 0.6:
                    pre.queue(rnd.choice(self.ch['events']), u=-1)
                if rnd.random() < 0.3:
                    pre.clock.time += rnd.choice(DT)
                try:
                    pre.execute_once()
                except Exception:       # noqa
                    break
        kw_it = {}
        if not self.ch.get('timed_plain') and rnd.random() < 0.12:
            kw_it['evaluator_klass'] = DelegatingEvaluator
            acc.count('cases_with_user_defined_evaluator')
        clock = SimulatedClock()
        if rnd.random() < 0.2:
            # the clock does not have to be at 0 when the interpreter is created (it may even show epoch seconds)
            clock.time = rnd.choice((8, 100, 1000.5, 1.7e9, 2.0 ** 40))
            acc.count('cases_with_preadvanced_clock')
        self.it = Interpreter(self.sc, initial_context=self.pr.context(), clock=clock, **kw_it)
        if rnd.random() < 0.05:
            # a listener fails while the very first 'step started' is delivered; the caller catches that and goes on:
            # nothing had happened yet, the next call initialises the statechart as if it were the first
            class Bomb(Exception):
                pass

            def bomb(m):
                raise Bomb()
            self.it.attach(bomb)
            try:
                self.it.execute_once()
            except Bomb:
                acc.count('first_call_aborted_by_a_listener')
            self.it.detach(bomb)
        self.it.attach(self.pr.listener(self.it))
        self.model = RefModel(self.ch)
        self.model.time = clock.time        # time of the interpreter before its first step = clock value at construction
        self.next_uid = 0
        self.queued = {}            # uid -> (name, due, internal)
        self.queued_n = Counter()   # uid -> how many times it was queued (the same Event instance may be queued twice)
        self.consumed = Counter()
        self.history = []           # client-boundary history (for replay files / samples)
        self.found = []
        self.keep_alive = []
        self.kept = []             # (step number, MacroStep object, projection taken when it was returned)
        self.stop = False
        self.was_final = False
        self.saw_root_final = False

    # -- reporting ------------------------------------------------------------------------------
    def report(self, prop, key, msg, **w):
        """Record a finding for property ``prop``; only the focus property's are violations."""
        if prop == self.focus or prop == '*':
            wit = dict(chart=self.ch, via=self.via, detours=self.detours, p_true=self.p_true, history=self.history[-60:],
                       mode=self.mode)
            wit.update(w)
            self.acc.violation('%s:%s' % (self.focus, key), msg, wit)
        else:
            self.acc.count('other_property_divergence_%s' % prop)
            self.lost_to = prop
        self.stop = True

    # -- client operations ----------------------------------------------------------------------
    def op_queue(self):
        rnd = self.rnd
        n = rnd.choice((1, 1, 1, 2, 3))
        evs = []
        for _ in range(n):
            self.next_uid += 1
            name = rnd.choice(self.ch['events'] + ['zz'])
            d = rnd.choice(DELAYS_NEG if self.mode == 'queue' else DELAYS)
            evs.append((name, self.next_uid, d))
        if rnd.random() < 0.08:
            # the very same Event instance queued several times in one call
            name, u, d = evs[0]
            obj = Event(name, u=u, delay=d) if d else Event(name, u=u)
            k = rnd.choice((2, 3))
            self.it.queue(*([obj] * k))
            evs = [evs[0]] * k
            self.acc.count('same_event_instance_queued_twice')
        elif n >= 2 and rnd.random() < 0.15:
            # documented form queue(name1, name2, ..., **parameters): the parameters go to every named event
            u, d = evs[0][1], evs[0][2]
            evs = [(nm, u, d) for (nm, _u, _d) in evs]
            kw = dict(u=u)
            if d:
                kw['delay'] = d
            self.it.queue(*[e[0] for e in evs], **kw)
            self.acc.count('queue_several_names_with_shared_parameters')
        elif n >= 2 and rnd.random() < 0.25:
            # names and Event instances mixed in one call: the named parameters (delay included) go to the events given by
            # name only, every instance keeps its own
            u0, d0 = evs[0][1], evs[0][2]
            byname = [rnd.random() < 0.5 for _ in evs]
            byname[rnd.randrange(n)] = True
            byname[(byname.index(True) + 1) % n] = False
            evs = [(nm, u0, d0) if b else (nm, u, d) for b, (nm, u, d) in zip(byname, evs)]
            kw = dict(u=u0)
            if d0:
                kw['delay'] = d0
            self.it.queue(*[nm if b else (Event(nm, u=u, delay=d) if d else Event(nm, u=u)) for b, (nm, u, d) in zip(byname, evs)], **kw)
            self.acc.count('queue_names_and_instances_mixed')
        elif n == 1 and rnd.random() < 0.5:
            name, u, d = evs[0]
            if d:
                self.it.queue(name, u=u, delay=d)
            else:
                self.it.queue(name, u=u)
        else:
            objs = [Event(name, u=u, delay=d) if d else Event(name, u=u) for name, u, d in evs]
            self.it.queue(*objs)
        for name, u, d in evs:
            due = self.model.time + d
            self.model.queue(name, u, due)
            self.queued[u] = (name, due, False)
            self.queued_n[u] += 1
            self.history.append(('queue', name, u, repr(d), self.model.time))

    def op_copy(self):
        """The run goes on with a deep copy of the interpreter (C18 says a copy continues exactly like the original; here
        the copy simply *is* the interpreter from now on, the reference model does not notice)."""
        import copy
        old = self.it
        try:
            new = copy.deepcopy(old)
        except Exception as e:      # noqa
            return self.report('*', 'unexpected-exception', 'copy.deepcopy(interpreter) raised %s: %s' % (type(e).__name__, str(e)[:200]))
        tm = dict(self.tmap)
        for ot, nt in zip(old.statechart.transitions, new.statechart.transitions):
            tm[id(nt)] = self.tmap[id(ot)]
        self.tmap = tm
        self.keep_alive.append(old)         # (ids of the old transition objects stay valid)
        self.it = new
        self.sc = new.statechart
        self.history.append(('deepcopy: the copy is used from now on',))
        self.acc.count('runs_continued_on_a_deep_copy')

    def op_clock(self, dt=None):
        dt = dt if dt is not None else self.rnd.choice(DT)
        self.it.clock.time += dt
        self.history.append(('clock+=', dt))

    # -- one monitored step ---------------------------------------------------------------------
    def step(self, k):
        acc, it, model, pr = self.acc, self.it, self.model, self.pr
        st, tr = self.st, self.tr
        pr.stepno = k
        before = list(it.configuration)
        ctx_before = {kk: vv for kk, vv in it.context.items() if not callable(vv)}
        del pr.log[:]
        t0 = it.clock.time
        valf = (lambda tid: False) if self.force_false else (lambda tid: self.val(k, tid))
        exp = model.step(valf, t0)
        self.history.append(('execute_once', k, t0))
        err = None
        step = None
        try:
            step = it.execute_once()
        except Exception as e:      # noqa
            err = e
        log = list(pr.log)
        acc.count('steps_monitored')
        self.force_false = False
        # ---- a returned MacroStep is a record of what happened: it does not change afterwards (C03) ----
        for (kk, old_step, old_proj) in self.kept:
            now = project_step(old_step, self.tmap)
            if now != old_proj:
                acc.count('returned_steps_rechecked')
                return self.report('C03', 'returned-step-changed-later', 'the MacroStep returned by step %d reads differently after step '
                                   '%d: %s' % (kk, k, first_difference(('step', old_proj), ('step', now))), step=k)
        acc.count('returned_steps_rechecked', len(self.kept))
        if step is not None:
            self.kept.append((k, step, project_step(step, self.tmap)))
            self.kept = self.kept[-6:]

        # ---- guard visibility (C01), judged on every step incl. error steps -------------------
        for ent in log:
            if ent[0] == 'G':
                acc.count('guard_probes')
                t = self.tdict[ent[1]]
                if t['event'] is None:
                    if ent[2] is not None:
                        return self.report('C01', 'eventless-guard-saw-event',
                                           'guard of eventless %s saw event %r' % (ent[1], ent[2]), step=k)
                else:
                    if ent[2] != exp.pending_uid:
                        return self.report('C01', 'guard-saw-wrong-event',
                                           'guard of %s saw %r, pending event is %r' % (ent[1], ent[2], exp.pending_uid),
                                           step=k)

        # ---- errors (C04) ---------------------------------------------------------------------
        if err is not None:
            self.history.append(('raised', type(err).__name__))
            if exp.kind == 'error':
                acc.count('expected_error_steps')
                cls = 'nondet' if type(err) is NonDeterminismError else \
                    'conflict' if type(err) is ConflictingTransitionsError else type(err).__name__
                if cls not in exp.errs:
                    return self.report('C04', 'wrong-exception-class',
                                       'expected %s, got %s: %s' % (sorted(exp.errs), type(err).__name__, str(err)[:200]),
                                       step=k, fired=exp.fired, config=before)
                ran = [e for e in log if e[0] in ('E', 'X', 'A', 'U')]
                metas = [e for e in log if e[0] == 'M' and e[1] != 'step started']
                if list(it.configuration) != before or ran or metas or \
                        {kk: vv for kk, vv in it.context.items() if not callable(vv)} != ctx_before:
                    return self.report('C04', 'error-not-atomic', 'something ran/changed before %s was raised: %r'
                                       % (cls, (ran + metas)[:6]), step=k, config=before)
                if self.focus == 'C04':
                    for pc in exp.pair_classes:
                        acc.nontrivial((self.digest, k, pc), cls='pair:' + pc)
                    acc.sample(dict(chart_states=len(st), config=before, selected=exp.fired,
                                    expected=sorted(exp.errs), raised=type(err).__name__))
                self.errors_in_a_row += 1
                self.force_false = True     # next step: all guards false -> the event must still be there
                if self.errors_in_a_row >= 3:
                    self.stop = True
                return
            if isinstance(err, (NonDeterminismError, ConflictingTransitionsError)):
                return self.report('C04', 'spurious-error', '%s raised but the selected transitions %r are '
                                   'pairwise in distinct regions and stay inside' % (type(err).__name__, exp.fired),
                                   step=k, config=before, err=str(err)[:300])
            return self.report('*', 'unexpected-exception', '%s: %s' % (type(err).__name__, str(err)[:300]),
                               step=k, config=before, expected=exp.as_dict())
        self.errors_in_a_row = 0

        # ---- model-independent oracles first: C02 (legal, stable), C03 (trace specification) ----------
        if step is not None:
            self.history.append(('returned', str(step)[:200]))
        ok_legal = self.check_legal(k, step, before)
        ok_trace = step is None or self.check_trace(k, step, log, before, exp, ev_id(step.event))
        if not (ok_legal and ok_trace):
            return      # both model-independent oracles were evaluated; the model-based ones need a sane step
        if exp.kind == 'error':
            if self.focus == 'C01' and step is not None:
                # the call returned a step although the selected transitions are in conflict: the step then does not fire
                # "exactly those the documented semantics prescribes" either
                got_ids = [self.tmap[id(t)] for t in step.transitions]
                if Counter(got_ids) != Counter(exp.fired):
                    return self.report('C01', 'transitions-differ', 'fired %r; the documented rule selects %r (which are in conflict: '
                                       '%s should have been raised)' % (got_ids, exp.fired, sorted(exp.errs)), step=k, config=before)
            return self.report('C04', 'no-error-raised', 'selected %r need %s but execute_once returned %s'
                               % (exp.fired, sorted(exp.errs), step), step=k, config=before,
                               pair_classes=sorted(exp.pair_classes))

        # ---- step / no step (C01, C05) ----------------------------------------------------------
        if exp.kind == 'none':
            if step is not None:
                return self.report('C01', 'step-when-none-expected', 'nothing enabled, nothing pending, got %s' % step,
                                   step=k, config=before)
            self.check_meta(k, log, None, t0)
            return
        if step is None:
            p = 'C05' if (not exp.fired and exp.event_uid is not None) else 'C01'
            return self.report(p, 'no-step', 'expected a step (fired=%r, consumed=%r), got None'
                               % (exp.fired, exp.event_uid), step=k, config=before, pending=exp.pending_uid)
        got_ids = [self.tmap[id(t)] for t in step.transitions]
        got_ev = ev_id(step.event)
        if Counter(got_ids) != Counter(exp.fired):
            if self.ch.get('timed_plain') and self.focus == 'C13':
                return self.report('C13', 'transitions-differ-under-time-guards', 'fired %r, after()/idle() semantics gives %r '
                                   '(enabled %r)' % (got_ids, exp.fired, exp.enabled), step=k, config=before,
                                   stamps=dict(entry=dict(self.model.t_entry), idle=dict(self.model.t_idle)), time=t0)
            return self.report('C01', 'transitions-differ', 'fired %r, documented rule gives %r (enabled %r, flags %r)'
                               % (got_ids, exp.fired, exp.enabled, sorted(exp.flags)), step=k, config=before,
                               pending=exp.pending_uid)
        if got_ev != exp.event_uid:
            p = 'C01' if any(self.tdict[i]['event'] is None for i in got_ids + exp.fired) else 'C05'
            self.report(p, 'consumed-event-differs', 'step consumed %r, expected %r (pending %r)'
                        % (got_ev, exp.event_uid, exp.pending_uid), step=k, config=before, fired=got_ids)
            if p != 'C05':
                self.report('C05', 'consumed-event-differs', 'step consumed %r, expected %r' % (got_ev, exp.event_uid),
                            step=k)
            return
        if got_ev is not None:
            self.consumed[got_ev] += 1
            if self.consumed[got_ev] > max(1, self.queued_n[got_ev]):
                return self.report('C05', 'consumed-twice', 'event %r consumed %d times, queued %d times'
                                   % (got_ev, self.consumed[got_ev], self.queued_n[got_ev]), step=k)
            name, due, internal = self.queued.get(got_ev, (None, None, None))
            if due is None:
                return self.report('C05', 'consumed-unknown', 'event %r was never queued' % got_ev, step=k)
            if step.time < due:
                return self.report('C05', 'consumed-before-due', 'event %r due at %r consumed at %r' % (got_ev, due, step.time),
                                   step=k)
        # non-trivial bookkeeping for C01 / C05
        if self.focus == 'C01':
            for f in ('priority_preempt', 'inner_first_prune', 'eventless_preempts_pending_event',
                      'eventless_preempts_enabled_evented'):
                if f in exp.flags:
                    acc.count('rule_' + f)
                    acc.nontrivial((self.digest, k, f), cls=f)
            if 'two_or_more_competitors' in exp.flags:
                acc.count('steps_with_2plus_competitors')
                acc.sample(dict(config=before, pending=exp.pending_uid, enabled=exp.enabled, fired=exp.fired,
                                flags=sorted(exp.flags)))
        if self.focus == 'C05':
            self.c05_bookkeeping(k, exp, got_ev, step)

        # ---- meta-event consistency for C05 (event consumed) --------------------------------------
        if not self.check_meta(k, log, step, t0):
            return
        # ---- C06: history restoration -------------------------------------------------------------
        if not self.check_history(k, step, exp, before):
            return
        cfg = list(it.configuration)
        # ---- configuration equals the model's ---------------------------------------------------------
        if set(cfg) != exp.config:
            p = 'C06' if exp.restores else 'C03'
            return self.report(p, 'configuration-differs', 'configuration %r, documented semantics gives %r'
                               % (cfg, sorted(exp.config)), step=k, before=before, step_repr=str(step))
        hist_names = None
        if Counter(step.entered_states) != exp.entered or Counter(step.exited_states) != exp.exited:
            p = 'C06' if exp.restores else 'C03'
            return self.report(p, 'entered-exited-sets-differ', 'entered %r exited %r; expected %r / %r'
                               % (step.entered_states, step.exited_states, sorted(exp.entered.elements()),
                                  sorted(exp.exited.elements())), step=k, before=before)
        # feed internal events to the queue model (observed sends)
        for ms in step.steps:
            for ev in ms.sent_events:
                if isinstance(ev, InternalEvent):
                    d = ev.data.get('delay', 0)
                    due = step.time + d
                    model.queue(ev.name, ev.u, due, internal=True)
                    self.queued[ev.u] = (ev.name, due, True)
                    self.queued_n[ev.u] += 1
                    self.history.append(('sent', ev.name, ev.u, d))


    def check_legal(self, k, step, before):
        """C02 oracle, model independent: evaluated first after every normal return of execute_once."""
        acc, it, st, tr = self.acc, self.it, self.st, self.tr
        cfg = list(it.configuration)
        self.note_entered(step)
        if it.final:
            if cfg:
                self.report('C02', 'final-not-empty', 'final but configuration %r' % cfg, step=k)
                return False
            if not self.saw_root_final:
                self.report('C02', 'final-without-final-state', 'the interpreter says it is final (configuration empty) although no '
                            'final child of the root was ever entered', step=k)
                return False
            self.was_final = True
            acc.count('final_reached')
        lg = legal(self.ch, cfg)
        if lg is not True:
            self.report('C02', 'illegal-configuration', '%s: %r after %s' % (lg, cfg, step), step=k, before=before)
            return False
        if not cfg and not it.final:
            self.report('C02', 'empty-not-final', 'configuration empty but not final', step=k)
            return False
        if self.focus == 'C02':
            orth_active = [n for n in cfg if st[n]['kind'] == 'orthogonal']
            if orth_active:
                acc.nontrivial((self.digest, tuple(cfg)), cls='orthogonal_active')
                acc.count('configs_with_orthogonal_active')
            for ms in (step.steps if step is not None else []):
                if ms.transition is not None and ms.transition.target is not None:
                    tgt = ms.transition.target
                    src = ms.transition.source
                    for P in [a for a in tr.anc(tgt)[1:] if st[a]['kind'] == 'orthogonal'] if len(tr.anc(tgt)) >= 2 else []:
                        if src != P and src not in tr.desc(P) or (P in ms.exited_states):
                            acc.count('region_descendant_entered_from_outside')
                            acc.nontrivial((self.digest, tuple(cfg), 'enter'), cls='enter_region_from_outside')
                            acc.sample(dict(before=before, transition=[src, tgt], orthogonal=P, after=cfg))
        return True

    # ---------------------------------------------------------------------------------------------
    def c05_bookkeeping(self, k, exp, got_ev, step):
        acc, model = self.acc, self.model
        if got_ev is None:
            return
        acc.count('events_consumed')
        name, due, internal = self.queued[got_ev]
        feats = []
        if internal and model.eq and model.eq[0][0] <= step.time:
            feats.append('internal_before_due_external')
        if due == step.time and due > 0:
            feats.append('due_exactly_now')
        q = model.iq if internal else model.eq
        if q and q[0][0] == due:
            feats.append('equal_due_tie')
        if not internal and model.iq and model.iq[0][0] > step.time:
            feats.append('external_while_internal_not_due')
        if not step.transitions:
            feats.append('consumed_in_empty_step')
        for f in feats:
            acc.count('c05_' + f)
            if f != 'consumed_in_empty_step':
                acc.nontrivial((self.digest, k, f), cls=f)
        if [f for f in feats if f != 'consumed_in_empty_step']:
            acc.sample(dict(consumed=got_ev, name=name, due=due, step_time=step.time, features=feats,
                            internal_queue=[(x[0], x[2]) for x in model.iq[:4]],
                            external_queue=[(x[0], x[2]) for x in model.eq[:4]]))

    def check_meta(self, k, log, step, t0):
        """'event consumed' meta-events tell the same story as MacroStep.event (C05)."""
        cons = [e for e in log if e[0] == 'M' and e[1] == 'event consumed']
        want = [] if step is None or step.event is None else [ev_id(step.event)]
        got = [ev_id(e[2].get('event')) for e in cons]
        if got != want:
            self.report('C05', 'event-consumed-meta-differs', "'event consumed' meta-events %r but MacroStep.event is %r"
                        % (got, want), step=k)
            return False
        return True

    def check_trace(self, k, step, log, before, exp, got_ev):
        acc, st, tr = self.acc, self.st, self.tr
        # (a) truthfulness ---------------------------------------------------------------------------
        expected = []
        owner = []          # index of micro step for each expected entry
        for i, ms in enumerate(step.steps):
            for s in ms.exited_states:
                expected.append(('X', s))
                owner.append(i)
            if ms.transition is not None and not self.tdict[self.tmap[id(ms.transition)]].get('action_text'):
                expected.append(('A', self.tmap[id(ms.transition)]))
                owner.append(i)
            for s in ms.entered_states:
                expected.append(('E', s))
                owner.append(i)
        actual = [(e[0], e[1]) for e in log if e[0] in ('E', 'X', 'A')]
        if actual != expected:
            self.report('C03', 'code-order-differs-from-macrostep', 'code ran as %r but the MacroStep says %r'
                        % (actual[:14], expected[:14]), step=k, before=before, step_repr=str(step))
            return False
        # times & events seen by the code
        for e in log:
            if e[0] in ('E', 'X') and e[2] != step.time or e[0] == 'A' and e[3] != step.time:
                self.report('C13', 'time-in-code', 'code saw time %r in a step at %r' % (e[-1], step.time), step=k)
                return False
            if e[0] == 'A':
                want = None if self.tdict[e[1]]['event'] is None else got_ev
                if e[2] != want:
                    self.report('C03', 'action-saw-wrong-event', 'action of %s saw event %r, step consumed %r'
                                % (e[1], e[2], got_ev), step=k)
                    return False
        # sends: U() calls made by the fragments of micro step i == its sent_events
        uids_by_ms = [[] for _ in step.steps]
        idx = -1
        for e in log:
            if e[0] in ('E', 'X', 'A'):
                idx += 1
            elif e[0] == 'U':
                if idx < 0:
                    self.report('C03', 'send-outside-fragment', 'a send happened before any code fragment', step=k)
                    return False
                uids_by_ms[owner[idx]].append(e[1])
        allsent = []
        for i, ms in enumerate(step.steps):
            got = [ev.u for ev in ms.sent_events]
            allsent.extend(got)
            for ev in ms.sent_events:
                if ev.data.get('z') == 1 and ('delay' not in ev.data or ev.data['delay'] != 0 or isinstance(ev.data['delay'], bool)):
                    self.report('C03', 'sent-event-parameters-differ', 'micro step %d: the code sent %r with delay=0 explicitly, the '
                                'event listed carries %r' % (i, ev.name, dict(ev.data)), step=k)
                    return False
            if got != uids_by_ms[i]:
                self.report('C03', 'sent-events-differ', 'micro step %d lists sent %r but its code sent %r'
                            % (i, got, uids_by_ms[i]), step=k, step_repr=str(step))
                return False
            for ev in ms.sent_events:
                if not isinstance(ev, (InternalEvent, MetaEvent)):
                    self.report('C03', 'sent-event-type', 'sent event %r is neither internal nor meta' % ev, step=k)
                    return False
        if [ev.u for ev in step.sent_events] != allsent:
            self.report('C03', 'macro-sent-events', 'MacroStep.sent_events is not the concatenation', step=k)
            return False
        if step.entered_states != [s for ms in step.steps for s in ms.entered_states] or \
                step.exited_states != [s for ms in step.steps for s in ms.exited_states] or \
                step.transitions != [ms.transition for ms in step.steps if ms.transition is not None]:
            self.report('C03', 'macro-aggregation', 'MacroStep aggregates differ from its micro steps', step=k)
            return False
        if step.time != self.it.time:
            self.report('C13', 'step-time', 'MacroStep.time %r != interpreter.time %r' % (step.time, self.it.time), step=k)
            return False
        # (b) order rules & (c) configuration recomputation (shared with the shipped-chart monitor) --------
        tms = [ms for ms in step.steps if ms.transition is not None]
        counts = {}
        bad = order_rules(self.ch, tr, step, before, self.it.configuration, counts)
        for kk, vv in counts.items():
            acc.count(kk, vv)
        if bad:
            self.report('C03', bad[0], bad[1], step=k, before=before, via=self.via, step_repr=str(step))
            return False
        acc.count('c03_trace_checks')
        if self.focus == 'C03':
            nt = len(tms) >= 2 or any(len(ms.exited_states) >= 3 for ms in step.steps) or \
                any(st[s]['kind'] == 'orthogonal' for s in step.entered_states + step.exited_states)
            if nt:
                acc.nontrivial((self.digest, k, 'c03'))
                if len(tms) >= 2:
                    acc.count('c03_multi_transition_steps')
                acc.sample(dict(before=before, micro_steps=[dict(t=self.tmap.get(id(ms.transition)), exited=ms.exited_states,
                                                                 entered=ms.entered_states,
                                                                 sent=[e.u for e in ms.sent_events]) for ms in step.steps],
                                code_log=[(e[0], e[1]) for e in log if e[0] in 'EXAU']))
        return True

    def check_history(self, k, step, exp, before):
        acc, st, tr = self.acc, self.st, self.tr
        pending = list(exp.restores)
        for ms in step.steps:
            if len(ms.exited_states) == 1 and st[ms.exited_states[0]]['kind'] in HKINDS and ms.transition is None:
                h = ms.exited_states[0]
                r = next((x for x in pending if x['h'] == h), None)
                if r is None:
                    self.report('C06', 'unexpected-restore', 'history state %s restored %r, not expected' % (h, ms.entered_states), step=k)
                    return False
                pending.remove(r)
                en = ms.entered_states
                if Counter(en) != Counter(r['states']):
                    self.report('C06', 'restored-set-differs', '%s history %s restored %r; what was active at the last exit '
                                'of its parent (or the default memory) is %r' % (r['kind'], h, en, r['states']),
                                step=k, before=before, default=r['default'])
                    return False
                for a in range(len(en)):
                    for b in range(a + 1, len(en)):
                        if en[b] in tr.anc(en[a]):
                            self.report('C06', 'restore-children-before-parents', '%s restored before its ancestor %s' % (en[a], en[b]), step=k)
                            return False
                acc.count('c06_restores')
                if r['default']:
                    acc.count('c06_default_memory_restores')
                if self.focus == 'C06':
                    if r['differs_from_default']:
                        acc.nontrivial((self.digest, h, tuple(r['states'])), cls='non_default_restore')
                        acc.count('c06_non_default_restores')
                        if len(r['states']) >= 3:
                            acc.count('c06_deep_restores_3plus')
                            acc.klass('deep_restore_3plus', (self.digest, h, tuple(r['states'])))
                        if any(st[x]['kind'] == 'orthogonal' for x in r['states']):
                            acc.count('c06_restores_with_orthogonal')
                        acc.sample(dict(history_state=h, kind=r['kind'], restored=en, default_memory=st[h]['memory'],
                                        before=before))
        if pending:
            self.report('C06', 'restore-missing', 'expected history restore(s) %r did not happen' % pending, step=k,
                        step_repr=str(step))
            return False
        return True

    # -- whole run ----------------------------------------------------------------------------------
    def run(self):
        acc, rnd = self.acc, self.rnd
        self.errors_in_a_row = 0
        nv0 = len(acc.violations)
        nsteps = TIER[self.tier]['steps']
        for c in shape_classes(self.ch):
            acc.count('shape_' + c)
        acc.count('charts_via_' + self.via)
        p_queue = rnd.choice((0.3, 0.5, 0.7))
        p_clock = rnd.choice((0.1, 0.3, 0.5))
        p_copy = 0.08 if rnd.random() < 0.15 else 0
        k = 0
        while k < nsteps and not self.stop:
            if (k > 0 or rnd.random() < 0.3) and rnd.random() < p_queue:
                self.op_queue()
            if rnd.random() < p_clock:
                self.op_clock()
            if p_copy and rnd.random() < p_copy:
                self.op_copy()
                if self.stop:
                    break
            self.step(k)
            k += 1
            if self.was_final and rnd.random() < 0.3:
                break
        if not self.stop:
            self.after_final_and_drain(k)
        if self.stop and getattr(self, 'lost_to', None) and self.focus == 'C02' and len(acc.violations) == nv0:
            self.free_run(k, nsteps + 6)
        acc.count('cases_run')
        if self.stop and not acc.violations:
            acc.count('cases_cut_short')

    def note_entered(self, step):
        root = self.ch['root']
        for ms in (step.steps if step is not None else []):
            for n in ms.entered_states:
                if self.st[n]['kind'] == 'final' and self.st[n]['parent'] == root:
                    self.saw_root_final = True

    def free_run(self, k, upto):
        """The run diverged from the reference model in a way that belongs to another property (wrong selection, a missing
        or a wrong error...).  C02 does not need the model: 'whenever execute_once returns normally the configuration is legal'
        is judged on the rest of the run as well, whatever happened before."""
        acc, it, rnd = self.acc, self.it, self.rnd
        acc.count('c02_model_free_continuations')
        for j in range(k, upto):
            if rnd.random() < 0.6:
                self.next_uid += 1
                it.queue(Event(rnd.choice(self.ch['events'] + ['zz']), u=self.next_uid))
                self.history.append(('queue (model-free)', self.next_uid))
            if rnd.random() < 0.4:
                it.clock.time += rnd.choice(DT)
            self.pr.stepno = j
            self.history.append(('execute_once (model-free)', j))
            try:
                step = it.execute_once()
            except Exception as e:      # noqa
                self.history.append(('raised', type(e).__name__))
                continue
            acc.count('c02_model_free_steps')
            cfg = list(it.configuration)
            self.note_entered(step)
            if it.final:
                if cfg:
                    return self.report('C02', 'final-not-empty', 'final but configuration %r' % cfg, step=j)
                if not self.saw_root_final:
                    return self.report('C02', 'final-without-final-state', 'the interpreter says it is final (configuration empty) '
                                       'although no final child of the root was ever entered (the run had diverged earlier, in a way '
                                       'that belongs to %s)' % self.lost_to, step=j)
                return
            lg = legal(self.ch, cfg)
            if lg is not True:
                return self.report('C02', 'illegal-configuration', '%s: %r after %s (the run had diverged from the expected one '
                                   'earlier, in a way that belongs to %s)' % (lg, cfg, step, self.lost_to), step=j)

    def after_final_and_drain(self, k):
        """Post-final continuation (C02) and drain (C05: nothing lost, nothing duplicated)."""
        acc, it, model = self.acc, self.it, self.model
        if self.was_final:
            # once final it stays empty whatever comes
            for _ in range(4):
                if self.stop:
                    return
                self.op_queue()
                self.op_clock()
                self.step(k)
                k += 1
                if self.stop:
                    return
                if it.configuration or not it.final:
                    return self.report('C02', 'not-final-anymore', 'configuration %r after having been final' % it.configuration)
            acc.count('c02_post_final_steps', 4)
        # drain
        dues = [x[0] for x in model.iq + model.eq]
        if dues:
            far = max(dues) - it.clock.time
            if far > 0:
                self.op_clock(far)
        bound = len(model.iq) + len(model.eq) + 25
        n = 0
        self.val = lambda stepno, tid: False       # stop guarded eventless loops during the drain
        while (model.iq or model.eq) and n < bound and not self.stop:
            before_len = len(model.iq) + len(model.eq)
            self.step(k)
            k += 1
            n += 1
            if self.errors_in_a_row:
                break
        if self.stop:
            return
        if not (model.iq or model.eq) and not self.errors_in_a_row:
            lost = [u for u in self.queued if self.consumed[u] != self.queued_n[u]]
            if lost:
                return self.report('C05', 'lost-or-duplicated', 'after the drain these events were not consumed exactly once: %r'
                                   % [(u, self.consumed[u]) for u in lost[:8]])
            acc.count('c05_drained_runs')
            acc.count('c05_events_exactly_once', len(self.queued))


def run_case(acc, rnd, tier, case, mode, focus, gen_kw=None):
    c = Case(acc, rnd, tier, case, mode, focus, gen_kw)
    c.run()
    return c
