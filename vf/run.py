"""./check <id> quick|thorough [--replay file]  ->  python -B -m vf.run ...

Shards the property's cases over worker subprocesses (subprocess.run with a timeout each, never
multiprocessing.Pool), merges their results, classifies violations against known_findings.json,
writes evidence/<id>.json and replays/<...>.json, and exits 0 (held) / 1 (VIOLATION) / 2 (INCONCLUSIVE).
"""
import importlib
import json
import os
import subprocess
import sys
import time
from concurrent.futures import ThreadPoolExecutor

from .common import PYTHON, REPO, VERIF_DIR, jsonable

NPROC = int(os.environ.get('VERIF_JOBS', '16'))
OUT_DIR = os.environ.get('VERIF_OUT', VERIF_DIR)     # mutant runs write their evidence/replays elsewhere


def load_findings():
    p = os.path.join(VERIF_DIR, 'known_findings.json')
    try:
        return json.load(open(p))['findings']
    except FileNotFoundError:
        return []


def prop_module(pid):
    return importlib.import_module('vf.props.%s' % pid.lower())


def run_shard(pid, tier, seed, shard, nshards, timeout):
    env = dict(os.environ)
    env['PYTHONHASHSEED'] = env.get('VERIF_HASHSEED', '0')
    env['VERIF_REPO'] = REPO
    env.pop('SISMIC_VERIF', None)
    cmd = [PYTHON, '-B', '-X', 'faulthandler', '-m', 'vf.worker', pid, tier, str(seed), str(shard), str(nshards)]
    t0 = time.time()
    try:
        p = subprocess.run(cmd, cwd=VERIF_DIR, env=env, stdout=subprocess.PIPE, stderr=subprocess.PIPE,
                           timeout=timeout, text=True)
    except subprocess.TimeoutExpired as e:
        return dict(inconclusive='shard %d: watchdog fired after %ds' % (shard, timeout),
                    stderr=(e.stderr or '')[-2000:] if isinstance(e.stderr, str) else '')
    if p.returncode != 0:
        return dict(inconclusive='shard %d: worker exit %d' % (shard, p.returncode), stderr=p.stderr[-4000:])
    try:
        line = [l for l in p.stdout.splitlines() if l.startswith('RESULT ')][-1]
        r = json.loads(line[7:])
    except Exception as e:       # noqa
        return dict(inconclusive='shard %d: unreadable result (%s)' % (shard, e), stderr=p.stderr[-4000:])
    r['wall'] = time.time() - t0
    return r


def merge(results):
    out = dict(counters={}, distinct=set(), samples=[], violations=[], inconclusive=[], case_notes=[], classes={},
               evaluations=0, extra={})
    for r in results:
        if 'inconclusive' in r:
            out['inconclusive'].append(r['inconclusive'] + (' :: ' + r.get('stderr', '')[-1500:] if r.get('stderr') else ''))
            continue
        for k, v in r.get('counters', {}).items():
            out['counters'][k] = out['counters'].get(k, 0) + v
        out['distinct'].update(r.get('distinct', []))
        for k, v in r.get('distinct_by', {}).items():
            out['classes'].setdefault(k, set()).update(v)
        out['samples'].extend(r.get('samples', []))
        out['violations'].extend(r.get('violations', []))
        out['evaluations'] += r.get('evaluations', 0)
        for k, v in r.get('extra', {}).items():
            if isinstance(v, list):
                out['extra'].setdefault(k, [])
                for x in v:
                    if x not in out['extra'][k]:
                        out['extra'][k].append(x)
            else:
                out['extra'][k] = v
        for m in r.get('notes', []):
            out['case_notes'].append(m)
        for f, d in r.get('reach', {}).items():
            for q, ls in d.items():
                out.setdefault('reach', {}).setdefault(f, {}).setdefault(q, set()).update(ls)
    return out


def main(argv):
    if len(argv) < 2:
        print('usage: check <id> quick|thorough | check <id> --replay <file>')
        return 2
    pid = argv[0].upper()
    mod = prop_module(pid)
    if argv[1] == '--replay':
        return replay(pid, mod, argv[2])
    tier = argv[1]
    if tier not in ('quick', 'thorough'):
        tier = os.environ.get('VERIF_TIER', 'quick')
    seed = int(os.environ.get('VERIF_SEED', '0'))
    plan = mod.plan(tier)
    nshards = min(plan.get('shards', NPROC), NPROC)
    t0 = time.time()
    with ThreadPoolExecutor(max_workers=nshards) as ex:
        futs = [ex.submit(run_shard, pid, tier, seed, i, nshards, plan.get('timeout', 900)) for i in range(nshards)]
        results = [f.result() for f in futs]
    m = merge(results)
    wall = time.time() - t0
    return conclude(pid, mod, tier, seed, plan, m, wall)


def conclude(pid, mod, tier, seed, plan, m, wall):
    findings = [f for f in load_findings() if f['property'] == pid]
    open_keys = {f['key']: f for f in findings if f['status'] == 'open'}
    known_seen = {}
    new_viol = []
    for v in m['violations']:
        if v.get('key') in open_keys:
            known_seen.setdefault(v['key'], []).append(v)
        else:
            new_viol.append(v)
    os.makedirs(os.path.join(OUT_DIR, 'replays'), exist_ok=True)
    os.makedirs(os.path.join(OUT_DIR, 'evidence'), exist_ok=True)
    lines = []
    replay_paths = []
    seen_keys = set()
    for v in new_viol:
        # one replay file per distinct (key, message) – keep the output readable
        k = (v.get('key'), v.get('msg', '')[:60])
        if k in seen_keys and len(replay_paths) >= 5:
            continue
        seen_keys.add(k)
        path = os.path.join(OUT_DIR, 'replays', '%s-%s-s%d-c%s.json' % (pid, tier, seed, v.get('case')))
        with open(path, 'w') as f:
            json.dump(dict(property=pid, tier=tier, seed=seed, case=v.get('case'), key=v.get('key'),
                           msg=v.get('msg'), witness=jsonable(v.get('witness'))), f, indent=1)
        replay_paths.append(path)
        lines.append('VIOLATION property=%s replay=%s' % (pid, path))
        if len(replay_paths) >= 20:
            break
    for key, vs in known_seen.items():
        lines.append('KNOWN-FINDING: property=%s %s [key=%s, seen %d times this run]' % (
            pid, open_keys[key]['what'], key, len(vs)))
    # open findings are announced even when the workload did not happen to hit them this run
    for key, f in open_keys.items():
        if key not in known_seen:
            lines.append('KNOWN-FINDING: property=%s %s [key=%s, not hit this run]' % (pid, f['what'], key))

    nontrivial = len(m['distinct'])
    inconclusive = list(m['inconclusive'])
    req = getattr(mod, 'REQUIRED_COUNTERS', [])
    for c in req:
        if m['counters'].get(c, 0) <= 0:
            inconclusive.append('deciding monitor counter %r is zero' % c)
    if nontrivial < 2:
        inconclusive.append('fewer than 2 distinct non-trivial cases observed')
    # Single cases that could not be judged (the harness itself failed on them, a child process timed out...) are never counted
    # as held: they are listed.  A handful of them among thousands does not make the whole run inconclusive - more than that does
    # (a change to the code under test that makes the harness fail shows up in many cases, not in one).
    case_notes = list(m['case_notes'])
    tolerated = max(2, m['evaluations'] // 2000)
    if len(case_notes) > tolerated:
        inconclusive.extend(case_notes)
    ev = dict(
        property_id=pid, tier=tier, seed=seed, level=getattr(mod, 'LEVEL', 'exploration'),
        coverage=dict(
            evaluations=m['evaluations'], distinct_nontrivial=nontrivial, rule=getattr(mod, 'RULE', ''),
            samples=m['samples'][:6] or ['(no sample recorded)'],
            counters=dict(sorted(m['counters'].items())),
            distinct_by_class={k: len(v) for k, v in sorted(m['classes'].items())},
            known_findings_seen={k: len(v) for k, v in known_seen.items()},
            inconclusive=inconclusive, inconclusive_cases=case_notes[:20], inconclusive_cases_count=len(case_notes),
            shards=plan.get('shards', NPROC), plan=plan,
            repo=REPO,
            code_under_test_reached=reach_summary(pid, m.get('reach', {})),
            **{k: v for k, v in m['extra'].items()}),
        assumptions=getattr(mod, 'ASSUMPTIONS', []),
        wall_s=round(wall, 2), violations=len(new_viol))
    with open(os.path.join(OUT_DIR, 'evidence', '%s.json' % pid), 'w') as f:
        json.dump(ev, f, indent=1, default=repr)
    global _LAST_RC
    _LAST_RC = 1 if new_viol else (2 if inconclusive else 0)
    print('%s %s seed=%d: evaluations=%d distinct_nontrivial=%d violations=%d known=%d wall=%.1fs' % (
        pid, tier, seed, m['evaluations'], nontrivial, len(new_viol), sum(len(v) for v in known_seen.values()), wall))
    keys = sorted(m['counters'])
    print('  counters: ' + ', '.join('%s=%d' % (k, m['counters'][k]) for k in keys))
    for ln in lines:
        print(ln)
    for v in new_viol[:5]:
        print('  witness[%s]: %s' % (v.get('key'), (v.get('msg') or '')[:600]))
    if case_notes and len(case_notes) <= tolerated:
        print('NOTE: %d of %d cases could not be judged and are not counted as held: %s' % (len(case_notes), m['evaluations'],
                                                                                         case_notes[0][:300].replace('\n', ' ')))
    if new_viol:
        return 1
    if inconclusive:
        for i in inconclusive:
            print('INCONCLUSIVE property=%s reason=%s' % (pid, i[:2000]))
        return 2
    return 0


def reach_summary(pid, reach):
    """Lines/functions of the files the property is anchored in that the workload actually executed."""
    anchors = []
    try:
        for l in open(os.path.join(VERIF_DIR, 'properties.jsonl')):
            p = json.loads(l)
            if p['id'] == pid:
                anchors = [f for f in p['anchors']['files'] if f.endswith('.py')]
    except Exception:       # noqa
        pass
    out = {}
    for f in sorted(set(anchors) | set(reach)):
        d = reach.get(f, {})
        if f in anchors or d:
            out[f] = dict(anchored=f in anchors, lines_executed=sum(len(v) for v in d.values()),
                          functions_executed=sorted(q for q in d if q != '<module>'))
    return out


def replay(pid, mod, path):
    w = json.load(open(path))
    from .worker import run_cases
    r = run_cases(pid, w['tier'], w['seed'], [w['case']], verbose=True)
    findings = {f['key'] for f in load_findings() if f['property'] == pid and f['status'] == 'open'}
    viol = [v for v in r['violations'] if v.get('key') not in findings]
    for v in r['violations']:
        print('  %s: %s' % (v.get('key'), v.get('msg')))
    if viol:
        print('VIOLATION property=%s replay=%s' % (pid, path))
        return 1
    print('replay: no violation reproduced for %s' % path)
    return 0


if __name__ == '__main__':
    try:
        rc = main(sys.argv[1:])
        sys.stdout.flush()
    except BrokenPipeError:
        # the reader went away (e.g. `| head -1`): the verdict is still in the evidence file; do not crash
        try:
            sys.stdout = open(os.devnull, 'w')
        except Exception:       # noqa
            pass
        rc = 0 if not globals().get('_LAST_RC') else globals()['_LAST_RC']
    sys.exit(rc)
