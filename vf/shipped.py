"""The statecharts shipped with the repository (tests/yaml, docs/examples) as an additional workload for the
model-independent oracles: C02 (legal, stable configuration) and C03 (order rules, configuration recomputation).

The abstract structure is obtained by parsing the YAML text ourselves (never through Statechart queries)."""
import glob
import os

from .common import REPO, import_sismic
from .gen import Tree
from .orderrules import order_rules
from .refmodel import legal

import_sismic()
from sismic.interpreter import Interpreter  # noqa: E402
from sismic.io import import_from_yaml  # noqa: E402

FILES = None


def files():
    global FILES
    if FILES is None:
        fs = sorted(glob.glob(os.path.join(REPO, 'tests/yaml/*.yaml')))
        for n in ('elevator/elevator.yaml', 'elevator/elevator_buttons.yaml', 'elevator/elevator_contract.yaml',
                  'microwave/microwave.yaml', 'microwave/microwave_with_contracts.yaml', 'stopwatch/stopwatch.yaml',
                  'writer_options.yaml'):
            p = os.path.join(REPO, 'docs/examples', n)
            if os.path.exists(p):
                fs.append(p)
        # only charts inside the domain of the properties (W7: no transition between sibling regions; W6: history states
        # entered from outside their parent) - tests/yaml/parallel.yaml deliberately contains region-crossing transitions
        ok = []
        for p in fs:
            ch, _ = load_abstract(p)
            tr = Tree(ch)
            bad = False
            for t in ch['transitions']:
                if t['target'] is None or t['target'] not in ch['states']:
                    continue
                if tr.crosses_regions(t['source'], t['target']):
                    bad = True
                if ch['states'][t['target']]['kind'] in ('shallow', 'deep'):
                    par = ch['states'][t['target']]['parent']
                    if t['source'] == par or t['source'] in tr.desc(par):
                        bad = True
            if not bad:
                ok.append(p)
        FILES = ok
    return FILES


def load_abstract(path):
    import ruamel.yaml
    text = open(path).read()
    data = ruamel.yaml.YAML(typ='safe', pure=True).load(text)['statechart']
    st = {}
    order = []
    events = set()
    trans = []

    def walk(d, parent):
        n = str(d['name'])
        t = d.get('type')
        if t == 'final':
            kind = 'final'
        elif t == 'shallow history':
            kind = 'shallow'
        elif t == 'deep history':
            kind = 'deep'
        elif d.get('states'):
            kind = 'compound'
        elif d.get('parallel states'):
            kind = 'orthogonal'
        else:
            kind = 'basic'
        kids = d.get('states') or d.get('parallel states') or []
        st[n] = dict(kind=kind, parent=parent, children=[str(c['name']) for c in kids] if kind in ('compound', 'orthogonal') else [],
                     initial=d.get('initial') if kind == 'compound' else None, memory=d.get('memory'))
        order.append(n)
        for tr in d.get('transitions') or []:
            if tr.get('event'):
                events.add(str(tr['event']).strip())
            trans.append(dict(source=n, target=None if tr.get('target') is None else str(tr['target'])))
        if kind in ('compound', 'orthogonal'):
            for c in kids:
                walk(c, n)
    walk(data['root state'], None)
    root = str(data['root state']['name'])
    return dict(root=root, states=st, order=order, transitions=trans, events=sorted(events)), text


def run_case(acc, rnd, focus, nsteps=50):
    path = rnd.choice(files())
    ch, text = load_abstract(path)
    tr = Tree(ch)
    it = Interpreter(import_from_yaml(text))
    name = os.path.relpath(path, REPO)
    acc.count('shipped_chart_runs')
    was_final = False
    hist = []
    for k in range(nsteps):
        if rnd.random() < 0.6:
            ev = rnd.choice(ch['events'] + ['noise']) if ch['events'] else 'noise'
            it.queue(ev, floor=rnd.randint(0, 5), key=rnd.choice('ab'))
            hist.append(('queue', ev))
        if rnd.random() < 0.4:
            dt = rnd.choice((0.5, 1, 2, 5, 10))
            it.clock.time += dt
            hist.append(('clock+=', dt))
        before = list(it.configuration)
        try:
            step = it.execute_once()
        except Exception as e:      # noqa – non-determinism / failing contracts / missing context of the shipped chart itself
            acc.count('shipped_runs_ended_by_' + type(e).__name__)
            return
        hist.append(('step', str(step)[:120]))
        cfg = list(it.configuration)
        wit = dict(chart=name, history=hist[-30:], before=before, after=cfg)
        acc.count('shipped_steps_checked')
        lg = legal(ch, cfg)
        bad = None
        if lg is not True:
            bad = ('C02', 'illegal-configuration', '%s: %s: %r after %s' % (name, lg, cfg, step))
        elif it.final and cfg:
            bad = ('C02', 'final-not-empty', '%s: final but configuration %r' % (name, cfg))
        elif not cfg and not it.final:
            bad = ('C02', 'empty-not-final', '%s: configuration empty but not final' % name)
        elif was_final and (cfg or not it.final):
            bad = ('C02', 'not-final-anymore', '%s: configuration %r after having been final' % (name, cfg))
        elif step is not None:
            r = order_rules(ch, tr, step, before, cfg, {})
            if r:
                bad = ('C03', r[0], '%s: %s' % (name, r[1]))
        if bad:
            if bad[0] == focus:
                acc.violation('%s:%s' % (focus, bad[1]), bad[2], wit)
            else:
                acc.count('other_property_divergence_' + bad[0])
            return
        was_final = was_final or it.final
        if focus == 'C02' and any(ch['states'][n]['kind'] == 'orthogonal' for n in cfg):
            acc.nontrivial((name, tuple(cfg)), cls='shipped_orthogonal_active')
        if focus == 'C03' and step is not None and (len(step.transitions) >= 2 or any(len(ms.exited_states) >= 3 for ms in step.steps)):
            acc.nontrivial((name, str(step)), cls='shipped')
