"""Controlled scheduler for the one threaded component (AsyncRunner, C20) – DESIGN §4 C20 mode (a).

Everything is interposed from outside: the runner's two threading.Event objects and its thread handle are replaced
by cooperative look-alikes, ``sismic.runner.runner.time`` by a virtual clock, ``sismic.interpreter.default.bisect`` by a
shim that yields between bisect_right and list.insert, and (when present) the interpreter's queue lists by list
subclasses that yield inside their mutators.  Exactly one managed thread runs at a time; the scheduler picks the
next one by a seeded strategy.  A thread blocked on an unset event / unfinished join is not runnable; "no runnable
thread while some thread is not finished" is a *logical deadlock* verdict – no wall clock involved.  A generous
wall-clock watchdog surrounds each schedule; its firing is inconclusive, never a violation.
"""
import bisect as real_bisect
import threading


class Abort(BaseException):
    """Raised inside managed threads to unwind them when a schedule is abandoned."""


class Sched:
    def __init__(self, rnd, strategy='random', watchdog=30.0):
        self.rnd = rnd
        self.strategy = strategy
        self.watchdog = watchdog
        self.sems = {}
        self.blocked = {}
        self.where = {}
        self.started = set()
        self.done = set()
        self.order = []
        self.main_sem = threading.Semaphore(0)
        self.trace = []             # (thread name, label) – the interleaving actually executed
        self.switches = 0
        self.aborting = False
        self.current = None
        self.prio = {}
        self.change_points = set()
        self.real = {}
        self.errors = []
        self.line_mode = False

    # -- managed threads -------------------------------------------------------------------------
    def name(self):
        t = threading.current_thread()
        if getattr(t, 'sched', None) is not self:
            return None         # a thread of another (older) schedule, or an unmanaged thread
        return getattr(t, 'sched_name', None)

    def managed(self):
        return self.name() in self.sems

    def spawn(self, name, fn, start_now=True):
        self.sems[name] = threading.Semaphore(0)
        self.order.append(name)

        def body():
            self.sems[name].acquire()
            try:
                if not self.aborting:
                    fn()
            except Abort:
                pass
            except BaseException as e:     # noqa – reported by the caller as a harness/impl error of that thread
                self.errors.append((name, e))
            finally:
                self.done.add(name)
                self.main_sem.release()
        t = threading.Thread(target=body, daemon=True)
        t.sched_name = name
        t.sched = self
        self.real[name] = t
        if start_now:
            self.started.add(name)
            t.start()
        return t

    def start_thread(self, name):
        self.started.add(name)
        self.real[name].start()

    def yield_(self, label, blocked_on=None):
        me = self.name()
        if me not in self.sems:
            return False            # unmanaged thread (e.g. garbage collection calling AsyncRunner.__del__)
        if self.aborting:
            raise Abort()
        self.blocked[me] = blocked_on
        self.where[me] = label
        self.trace.append((me, label))
        self.main_sem.release()
        self.sems[me].acquire()
        self.blocked[me] = None
        if self.aborting:
            raise Abort()
        return True

    # -- the scheduler loop (runs in the calling thread) ----------------------------------------------
    def pick(self, runnable):
        rnd = self.rnd
        if self.strategy == 'sticky' and self.current in runnable and rnd.random() < 0.85:
            return self.current
        if self.strategy == 'pct':
            for n in runnable:
                if n not in self.prio:
                    self.prio[n] = rnd.random()
            if self.switches in self.change_points and self.current in self.prio:
                self.prio[self.current] = -rnd.random()
            return max(runnable, key=lambda n: self.prio[n])
        return rnd.choice(runnable)

    def run(self, max_switches=4000):
        """Returns 'done' | 'deadlock' | 'switch-limit' | 'watchdog'."""
        if self.strategy == 'pct':
            self.change_points = {self.rnd.randrange(1, 400) for _ in range(self.rnd.choice((1, 2, 3)))}
        self.main_sem.release()      # kick
        while True:
            if not self.main_sem.acquire(timeout=self.watchdog):
                return self.abandon('watchdog')
            live = [n for n in self.order if n in self.started and n not in self.done]
            if not live:
                return 'done'
            runnable = []
            for n in live:
                b = self.blocked.get(n)
                try:
                    ok = b is None or b()
                except Exception:       # noqa
                    ok = True
                if ok:
                    runnable.append(n)
            if not runnable:
                self.deadlock = {n: self.where.get(n) for n in live}
                return self.abandon('deadlock')
            self.switches += 1
            if self.switches > max_switches:
                return self.abandon('switch-limit')
            n = self.pick(runnable)
            self.current = n
            self.sems[n].release()

    def abandon(self, verdict):
        self.aborting = True
        for n in self.order:
            if n in self.started and n not in self.done:
                self.sems[n].release()
        for n in self.order:
            t = self.real.get(n)
            if t is not None and n in self.started:
                t.join(timeout=2.0)
        return verdict

    def interleaving_digest(self):
        import hashlib
        h = hashlib.blake2b(digest_size=8)
        for n, l in self.trace:
            h.update(('%s:%s;' % (n, l)).encode())
        return h.hexdigest()


class CEvent:
    """Cooperative replacement of threading.Event: every operation is a scheduling point."""

    def __init__(self, sched, label, oplog=None):
        self.S, self.label, self.flag, self.oplog = sched, label, False, oplog

    def _log(self, op):
        if self.oplog is not None:
            self.oplog.append(('flag', self.label, op, self.S.name()))

    def is_set(self):
        self.S.yield_('is_set ' + self.label)
        return self.flag

    def set(self):
        self.S.yield_('set ' + self.label)
        self.flag = True
        self._log('set')

    def clear(self):
        self.S.yield_('clear ' + self.label)
        self.flag = False
        self._log('clear')

    def wait(self, timeout=None):
        self.S.yield_('wait ' + self.label)
        while not self.flag:
            if not self.S.yield_('blocked-wait ' + self.label, blocked_on=lambda: self.flag):
                return self.flag
        self._log('passed')          # the waiting thread has seen the flag set
        return True


class ThreadProxy:
    """Stands for AsyncRunner._thread; the real thread is a scheduler-managed thread named 'runner'."""

    def __init__(self, sched, target, name='runner'):
        self.S = sched
        self.finished = False
        self.started = False
        self.name = name

        def body():
            try:
                target()
            finally:
                self.finished = True
        sched.spawn(name, body, start_now=False)

    def is_alive(self):
        self.S.yield_('is_alive')
        return self.started and not self.finished

    def start(self):
        self.S.yield_('thread.start')
        if self.started:
            raise RuntimeError('threads can only be started once')
        self.started = True
        self.S.start_thread(self.name)

    def join(self, timeout=None):
        self.S.yield_('join')
        while not self.finished:
            if not self.S.yield_('blocked-join', blocked_on=lambda: self.finished):
                return


class TimeShim:
    """Replacement of the ``time`` module inside sismic.runner.runner: virtual, and sleep() is a scheduling point."""

    def __init__(self, sched):
        self.S, self.now = sched, 0.0

    def time(self):
        return self.now

    def sleep(self, d):
        self.now += max(d, 0)
        self.S.yield_('sleep')


class BisectShim:
    """Replacement of the ``bisect`` module inside sismic.interpreter.default: yields between computing the insertion
    point and the list.insert that follows (CPython can switch threads there: bisect calls Python-level __getitem__)."""

    def __init__(self, sched, oplog=None):
        self.S, self.oplog = sched, oplog

    def bisect_right(self, a, x, *args, **kw):
        r = real_bisect.bisect_right(a, x, *args, **kw)
        if self.oplog is not None:
            self.oplog.append(('bisect-done', self.S.name(), r))
        self.S.yield_('between bisect and insert')
        return r

    def bisect_left(self, a, x, *args, **kw):
        r = real_bisect.bisect_left(a, x, *args, **kw)
        if self.oplog is not None:
            self.oplog.append(('bisect-done', self.S.name(), r))
        self.S.yield_('between bisect and insert')
        return r

    def __getattr__(self, n):
        return getattr(real_bisect, n)


class YList(list):
    """list whose mutators are scheduling points and are recorded; sort() reproduces CPython's behaviour of exposing
    an empty list to other threads while the (Python-level) key function runs."""

    def bind(self, sched, label, oplog):
        self.S, self.label, self.oplog = sched, label, oplog
        return self

    def _rec(self, op, *a):
        if getattr(self, 'oplog', None) is not None:
            self.oplog.append(('queue-op', self.label, op, self.S.name()) + a)

    def insert(self, i, x):
        self.S.yield_('before insert ' + self.label)
        list.insert(self, i, x)
        self._rec('insert', i, len(self))

    def append(self, x):
        self.S.yield_('before append ' + self.label)
        list.append(self, x)
        self._rec('append', len(self) - 1, len(self))

    def pop(self, *a):
        self.S.yield_('before pop ' + self.label)
        r = list.pop(self, *a)
        self._rec('pop', len(self))
        return r

    def sort(self, *, key=None, reverse=False):
        self.S.yield_('before sort ' + self.label)
        items = list(self)
        list.clear(self)                     # CPython: the list is empty while it is being sorted
        keyed = []
        for it in items:
            keyed.append((key(it) if key else it, it))
            self.S.yield_('inside sort ' + self.label)
        keyed.sort(key=lambda p: p[0], reverse=reverse)
        if len(self):
            list.clear(self)
            raise ValueError('list modified during sort')
        list.extend(self, [p[1] for p in keyed])
        self._rec('sort', len(self))


class CLock:
    """Cooperative re-entrant lock: replaces a threading.(R)Lock found on the instrumented objects, so that a managed
    thread waiting for it is known to the scheduler as blocked instead of blocking for real."""

    def __init__(self, sched, label, oplog=None):
        self.S, self.label, self.owner, self.depth, self.oplog = sched, label, None, 0, oplog

    def acquire(self, blocking=True, timeout=-1):
        me = self.S.name() or 'unmanaged'
        self.S.yield_('acquire ' + self.label)
        while self.owner is not None and self.owner != me:
            if not blocking:
                return False
            if not self.S.yield_('blocked-lock ' + self.label, blocked_on=lambda: self.owner is None):
                return False
        self.owner = me
        self.depth += 1
        return True

    def release(self):
        self.depth -= 1
        if self.depth == 0:
            self.owner = None

    def __enter__(self):
        self.acquire()
        return self

    def __exit__(self, *a):
        self.release()


class LineYields:
    """Source-free yield injection: with sys.monitoring (3.12+) every *line* of selected functions becomes a scheduling
    point for managed threads.  Installed once per process; ``current`` designates the scheduler of the running schedule."""
    TOOL = 3

    def __init__(self):
        self.current = None
        self.installed = False
        self.codes = []

    def install(self, functions):
        import sys
        mon = getattr(sys, 'monitoring', None)
        if mon is None:
            return False
        if not self.installed:
            try:
                mon.use_tool_id(self.TOOL, 'vf-line-yields')
            except ValueError:
                return False
            mon.register_callback(self.TOOL, mon.events.LINE, self.on_line)
            self.installed = True
        for f in functions:
            code = getattr(f, '__code__', None)
            if code is not None and code not in self.codes:
                mon.set_local_events(self.TOOL, code, mon.events.LINE)
                self.codes.append(code)
        return True

    def on_line(self, code, line):
        S = self.current
        if S is not None and S.line_mode and S.name() is not None:
            S.yield_('line %s:%d' % (code.co_name, line))
        return None
