"""YAML-significant / unicode / multi-line text for C11 and C12 (DESIGN §4 C11 workload)."""

ATOMS = ['a: b', '# x', '- y', "it's", '"q"', '| lit', '> fold', 'yes', 'no', 'null', '~', '0x10', '1_000', '1e3', '123',
         '1.5', 'true', 'é', '日本', '😀', 'a\tb', '{x}', '[y]', '&a', '*a', '!t', '%d', '@x', '`b`', 'x,y', '?', ':', '-',
         '=', '<<', 'a #b', 'key: [1, 2]', "'", '"', '\\', 'a\\nb', '?0', ': x', '- ', '---', '...', 'on', 'off', 'Null',
         '.inf', '.nan', '0o17', '+1', '-0', '1:30', '2001-01-01', 'ß', 'Ω≈ç', 'naïve', '{', '}', '[', ']', ',', '|', '>',
         '!!str', '&', '*', '%YAML', '@', '`', 'a:b', 'a :b', 'x #', '#', "''", '""', 'tab\there', 'é: è', '日本: 語',
         'statechart', 'name', 'root state', 'states', 'transitions', 'None', 'True', 'False', 'ẞtraße', '·', '\u00a0x',
         'x\u00a0', '\u200bzero', 'ｆｕｌｌ', 'ǅ', 'a\u0301', '🙂👍🏽', '<a&b>', '$HOME', '~user', 'C:\\path', '/etc/passwd', 'a=b',
         'a|b', 'a>b', 'a?b', 'a*b', 'a!b', 'a%b', 'a@b', 'a`b', '?x: y', '? ', ': ', '-x', '- - a', '-: -',
         # characters that YAML (1.1 or 1.2) treats as line breaks or may not write verbatim
         'nel\x85x', 'ls\u2028x', 'ps\u2029x', 'c1\x80\x9f', 'bom\ufeffx', 'del\x7f', 'esc\x1b[0m', 'cr\rx', 'non\ufffe', 'a\x85\x85b',
         'nul\x00x', 'bell\x07']

WORDS = ['état', 'extérieure', 'porte', 'fenêtre', 'naïve', 'coöperate', 'façade', 'mañana', 'Zürich', 'smörgåsbord', '日本語',
         'данные', 'ελληνικά', 'x', 'value', 'counter', 'the', 'door', 'is', 'open', 'closed', '😀', 'température', 'überprüfung',
         'ação', 'işlem', 'žluťoučký', 'kůň', 'o', 'a', 'àéîõü', 'ÀÉÎÕÜ', '≥', '→', '«quoted»', '“smart”', 'it\'s', '"dq"',
         'a:b', '#hash', 'k: v', '- item']

MULTILINE = ["multi\nline", "x = 1\nif x:\n    y = 2", "a\n\nb", "first: line\nsecond # line\n- third", "x = 1\n\n\ny = 2",
             "if a:\n\tb()\nelse:\n    c()", "line1\n  indented\n    more\nback", "# comment only\nx = 2", "a:\n  - b\n  - c",
             "'''doc'''\nx = 1", 'text with "dq" and \'sq\'\nsecond', "é\nè\nê", "| not\n> block", "trailing colon:\nnext",
             "nel\x85in\nmulti", "c1\x90\nnext", "ls\u2028\nps\u2029", "cr\r\nlf", "x\ufffe\ny", "trail \nspace", "tab\t\nend", "a\x1b\nb"]


def sentence(rnd, lo=60, hi=220):
    """Long text (exceeds the emitter's 80 column width) with non-ASCII characters inside words."""
    n = rnd.randint(lo, hi)
    out = []
    ln = 0
    # one text in three is spaced irregularly: tabs, runs of spaces (code is: indentation, alignment, tab-separated data)
    seps = (' ',) if rnd.random() < 0.67 else (' ', ' ', '  ', '   ', '\t', ' \t', '\t ')
    while ln < n:
        w = rnd.choice(WORDS)
        out.append(w)
        out.append(rnd.choice(seps))
        ln += len(w) + 1
    return ''.join(out[:-1])


def text(rnd, multiline_ok=True):
    """Arbitrary (non-executable) text for code/description fields; never empty after stripping."""
    r = rnd.random()
    if r < 0.35:
        s = rnd.choice(ATOMS)
    elif r < 0.55 and multiline_ok:
        s = rnd.choice(MULTILINE)
    elif r < 0.8:
        s = sentence(rnd)
    else:
        s = rnd.choice(ATOMS) + rnd.choice([' ', ': ', ' # ', '', '\n' if multiline_ok else ' ']) + sentence(rnd, 10, 120)
    return s if s.strip() else 'x'


def pad(rnd, s):
    """surrounding whitespace (the importer strips code)"""
    return rnd.choice(['', ' ', '\n', '  ']) + s + rnd.choice(['', ' ', '\n', ' \n'])


def name(rnd, used, spaces_ok=True):
    for _ in range(200):
        r = rnd.random()
        if r < 0.6:
            n = rnd.choice(ATOMS)
        elif r < 0.8:
            n = rnd.choice(ATOMS) + str(rnd.randint(0, 99))
        elif r < 0.9:
            n = sentence(rnd, 5, 100)
        else:
            n = rnd.choice(WORDS) + rnd.choice(ATOMS)
        if spaces_ok and rnd.random() < 0.1:
            n = rnd.choice([' ', '  ']) + n if rnd.random() < 0.5 else n + ' '
        if n.strip() and n not in used:
            used.add(n)
            return n
    n = 'n%d' % len(used)
    used.add(n)
    return n
