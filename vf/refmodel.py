"""Independent executable restatement of sismic's documented step semantics over the abstract chart.

Never imports sismic.  Returns *sets plus order constraints*: what the statements of C01–C06 fix,
nothing more (see DESIGN.md §3.3).
"""
from collections import Counter

from .gen import HKINDS, Tree


class Expect:
    __slots__ = ('kind', 'event_uid', 'event_name', 'fired', 'errs', 'entered', 'exited', 'config',
                 'restores', 'flags', 'pending_uid', 'enabled', 'pair_classes')

    def __init__(self, kind):
        self.kind = kind            # 'none' | 'step' | 'error'
        self.event_uid = None
        self.event_name = None
        self.fired = []
        self.errs = set()
        self.entered = Counter()
        self.exited = Counter()
        self.config = None
        self.restores = []
        self.flags = set()
        self.pending_uid = None
        self.enabled = []
        self.pair_classes = set()

    def as_dict(self):
        return dict(kind=self.kind, event_uid=self.event_uid, fired=list(self.fired), errs=sorted(self.errs),
                    entered=sorted(self.entered.elements()), exited=sorted(self.exited.elements()),
                    config=sorted(self.config) if self.config is not None else None,
                    restores=self.restores, flags=sorted(self.flags), pending=self.pending_uid)


class RefModel:
    def __init__(self, chart):
        self.ch = chart
        self.st = chart['states']
        self.tr = Tree(chart)
        self.config = set()
        self.memory = {}
        self.iq = []        # (due, seq, uid, name)
        self.eq = []
        self.seq = 0
        self.time = 0
        self.init = False
        self.was_final = False
        self.t_entry = {}
        self.t_idle = {}

    # -- queues -------------------------------------------------------------------------------
    def queue(self, name, uid, due, internal=False):
        q = self.iq if internal else self.eq
        self.seq += 1
        q.append((due, self.seq, uid, name))
        q.sort(key=lambda x: (x[0], x[1]))

    def pending(self):
        for q in (self.iq, self.eq):
            if q and q[0][0] <= self.time:
                return q, q[0]
        return None, None

    def all_queued(self):
        return [x[2] for x in self.iq] + [x[2] for x in self.eq]

    # -- structure ----------------------------------------------------------------------------
    def final(self):
        return self.init and not self.config

    def enter(self, n):
        self.config.add(n)
        self.t_entry[n] = self.time
        self.t_idle[n] = self.time

    def time_guard(self, t):
        """after(d)/idle(d) of plain time guards: at least d elapsed since the source was entered / entered or last fired."""
        tg = t.get('tguard')
        if not tg or not tg.get('plain'):
            return True
        s = t['source']
        if tg['after'] is not None and not (self.time - self.t_entry[s] >= tg['after']):
            return False
        if tg['idle'] is not None and not (self.time - self.t_idle[s] >= tg['idle']):
            return False
        return True

    def stabilise(self, exp):
        st = self.st
        tr = self.tr
        while True:
            c = self.config
            fin = [n for n in c if st[n]['kind'] == 'final' and st[n]['parent'] == self.ch['root']]
            if fin:
                for n in fin:
                    exp.exited[n] += 1
                exp.exited[self.ch['root']] += 1
                self._record_memory(self.ch['root'], set(c))
                self.config = set()
                return
            hs = sorted(n for n in c if st[n]['kind'] in HKINDS)
            if hs:
                h = hs[0]
                default = h not in self.memory
                mem = self.memory.get(h, [st[h]['memory']])
                mem = sorted(mem, key=lambda x: (tr.depth(x), x))
                c.discard(h)
                exp.exited[h] += 1
                for m in mem:
                    self.enter(m)
                    exp.entered[m] += 1
                exp.restores.append(dict(h=h, kind=st[h]['kind'], states=list(mem), default=default,
                                         differs_from_default=(list(mem) != [st[h]['memory']])))
                continue
            changed = False
            for n in sorted(c, key=lambda x: (tr.depth(x), x)):
                k = st[n]['kind']
                if k == 'orthogonal':
                    miss = sorted(x for x in st[n]['children'] if x not in c)
                    if miss:
                        for x in miss:
                            self.enter(x)
                            exp.entered[x] += 1
                        changed = True
                        break
                elif k == 'compound':
                    if not any(x in c for x in st[n]['children']) and st[n]['initial']:
                        self.enter(st[n]['initial'])
                        exp.entered[st[n]['initial']] += 1
                        changed = True
                        break
            if not changed:
                return

    def _record_memory(self, n, before):
        st = self.st
        if st[n]['kind'] != 'compound':
            return
        for c in st[n]['children']:
            if st[c]['kind'] == 'shallow':
                self.memory[c] = [x for x in st[n]['children'] if x in before]
            elif st[c]['kind'] == 'deep':
                self.memory[c] = [x for x in self.tr.desc(n) if x in before]

    # -- selection ----------------------------------------------------------------------------
    def select(self, val, exp):
        tr = self.tr
        q, pend = self.pending()
        pname = pend[3] if pend else None
        exp.pending_uid = pend[2] if pend else None
        en = [t for t in self.ch['transitions'] if t['source'] in self.config
              and (t['event'] is None or (pend is not None and t['event'] == pname))
              and self.time_guard(t) and (not t['guard'] or val(
                  t['ekey'] + ('+' if t['event'] is not None else '-') if t.get('ekey') else t.get('gkey') or t.get('code_id') or t['id']))]
        exp.enabled = [t['id'] for t in en]
        evl = [t for t in en if t['event'] is None]
        comp = evl if evl else en
        if evl and (pend is not None):
            exp.flags.add('eventless_preempts_pending_event')
        if evl and len(en) > len(evl):
            exp.flags.add('eventless_preempts_enabled_evented')
        fired = []
        for t in comp:
            d = set(tr.desc(t['source']))
            if any(o['source'] in d for o in comp):
                exp.flags.add('inner_first_prune')
                continue
            if any(o['source'] == t['source'] and o['priority'] > t['priority'] for o in comp):
                exp.flags.add('priority_preempt')
                continue
            fired.append(t)
        if len(comp) >= 2:
            exp.flags.add('two_or_more_competitors')
        consumes = pend is not None and not evl
        return fired, (q if consumes else None), (pend if consumes else None)

    def classify(self, fired, exp):
        st = self.st
        tr = self.tr
        kinds = set()
        for i in range(len(fired)):
            for j in range(i + 1, len(fired)):
                a, b = fired[i], fired[j]
                sa = [a['source']] + tr.anc(a['source'])
                sb = [b['source']] + tr.anc(b['source'])
                if a['source'] == b['source']:
                    kinds.add('nondet')
                    exp.pair_classes.add('same_source_on_root' if a['source'] == self.ch['root']
                                         else ('same_source_under_orthogonal'
                                               if st[st[a['source']]['parent']]['kind'] == 'orthogonal'
                                               else 'same_source'))
                    continue
                if a['source'] in sb or b['source'] in sa:
                    kinds.add('nondet')
                    exp.pair_classes.add('ancestor_descendant')
                    continue
                A = next(x for x in sa if x in sb)
                if st[A]['kind'] != 'orthogonal':
                    kinds.add('nondet')
                    exp.pair_classes.add('same_region_different_states')
                    continue
                leaving = False
                for t, chain in ((a, sa), (b, sb)):
                    reg = chain[chain.index(A) - 1]
                    if t['target'] is not None and t['target'] != reg and t['target'] not in tr.desc(reg):
                        leaving = True
                if leaving:
                    kinds.add('conflict')
                    exp.pair_classes.add('different_regions_leaving')
                else:
                    exp.pair_classes.add('different_regions_staying')
        return kinds

    # -- one macro step -----------------------------------------------------------------------
    def step(self, val, time):
        self.time = time
        st = self.st
        tr = self.tr
        if not self.init:
            self.init = True
            exp = Expect('step')
            self.config = set()
            self.enter(self.ch['root'])
            exp.entered[self.ch['root']] += 1
            self.stabilise(exp)
            exp.config = set(self.config)
            exp.flags.add('init')
            return exp
        exp = Expect('step')
        fired, q, cons = self.select(val, exp)
        if not fired:
            if cons is not None:
                q.pop(0)
                exp.event_uid, exp.event_name = cons[2], cons[3]
                exp.config = set(self.config)
                exp.flags.add('empty_step_consumes')
                return exp
            exp.kind = 'none'
            exp.config = set(self.config)
            return exp
        errs = self.classify(fired, exp)
        if errs:
            exp.kind = 'error'
            exp.errs = errs
            exp.fired = [t['id'] for t in fired]
            exp.config = set(self.config)
            return exp
        if cons is not None:
            q.pop(0)
            exp.event_uid, exp.event_name = cons[2], cons[3]
        fired.sort(key=lambda t: (-tr.depth(t['source']), t['source']))
        exp.fired = [t['id'] for t in fired]
        for t in fired:
            if t['target'] is None:
                self.t_idle[t['source']] = self.time
                continue
            s, g = t['source'], t['target']
            sa = tr.anc(s)
            ga = tr.anc(g)
            lca = next((x for x in sa if x in ga), None)
            top = s
            for x in sa:
                if x == lca:
                    break
                top = x
            before = set(self.config)
            ex = [n for n in [top] + tr.desc(top) if n in self.config]
            for n in ex:
                self._record_memory(n, before)
                exp.exited[n] += 1
            self.config -= set(ex)
            path = [g]
            for x in ga:
                if x == lca:
                    break
                path.insert(0, x)
            self.t_idle[s] = self.time
            for n in path:
                self.enter(n)
                exp.entered[n] += 1
            self.stabilise(exp)
        exp.config = set(self.config)
        return exp


def legal(ch, config):
    """C02 oracle: is ``config`` a legal statechart configuration?  True or a reason string."""
    st = ch['states']
    c = set(config)
    if not c:
        return True
    if ch['root'] not in c:
        return 'root not active'
    for n in c:
        if n not in st:
            return 'unknown state %r' % n
        s = st[n]
        if s['parent'] is not None and s['parent'] not in c:
            return 'parent of %s not active' % n
        if s['kind'] in HKINDS:
            return 'history state %s active' % n
        ac = [x for x in s['children'] if x in c]
        if s['kind'] == 'compound':
            if len(ac) > 1:
                return 'compound %s has %d active children' % (n, len(ac))
            if len(ac) == 0 and s['initial']:
                return 'compound %s has no active child' % n
        if s['kind'] == 'orthogonal' and len(ac) != len(s['children']):
            return 'orthogonal %s: %d of %d children active' % (n, len(ac), len(s['children']))
        if s['kind'] == 'final' and s['parent'] == ch['root']:
            return 'final child of root still active (not stable)'
    return True
