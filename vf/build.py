"""Abstract chart (vf.gen) -> real sismic Statechart, through the public API or through YAML text.

Code strings call harness probes handed in through the documented ``initial_context``:
  E(name, time) / X(name, time)      entry / exit code
  A(tid, event, time)                transition action
  G(tid, event, time)                guard (returns the valuation)
  U()                                unique id for sent events
  K(cid, time, old_v)                contract condition (returns its planned verdict)
"""
from .common import import_sismic

import_sismic()
from sismic.model import (BasicState, CompoundState, DeepHistoryState, FinalState,  # noqa: E402
                          OrthogonalState, ShallowHistoryState, Statechart, Transition)
from sismic.io import import_from_yaml  # noqa: E402

KLASS = dict(basic=BasicState, compound=CompoundState, orthogonal=OrthogonalState, final=FinalState,
             shallow=ShallowHistoryState, deep=DeepHistoryState)


def _send_code(sends):
    lines = []
    for s in sends:
        fn = 'send' if s['kind'] == 'send' else 'notify'
        if s.get('delay'):
            lines.append('%s(%r, u=U(), delay=%r)' % (fn, s['name'], s['delay']))
        elif s.get('zero'):
            lines.append('%s(%r, u=U(), delay=0, z=1)' % (fn, s['name']))        # z=1 marks "was sent with an explicit delay of 0"
        else:
            lines.append('%s(%r, u=U())' % (fn, s['name']))
    return lines


class Coder:
    """Produces the code strings; subclasses change the probe vocabulary."""
    bump_v = False        # add 'v = v + 1' to every executable fragment (C08/C09/C18)

    def entry(self, ch, n):
        lines = ['E(%r, time)' % n] + _send_code(ch['states'][n]['sends_entry'])
        if ch['states'][n].get('active_call'):
            lines.append('active(%r)' % ch['states'][n]['active_call'])
        if self.bump_v:
            lines.append('v = v + 1')
        return '\n'.join(lines)

    def exit(self, ch, n):
        lines = ['X(%r, time)' % n] + _send_code(ch['states'][n]['sends_exit'])
        if self.bump_v:
            lines.append('v = v + 1')
        return '\n'.join(lines)

    def action(self, ch, t):
        if t.get('action_text'):
            return 'H(%r)' % t['action_text']        # exactly the text of another transition's guard
        lines = ['A(%r, event, time)' % (t.get('code_id') or t['id'])] + _send_code(t['sends'])
        if t.get('active_call'):
            lines.append('active(%r)' % t['active_call'])
        if self.bump_v:
            lines.append('v = v + 1')
        return '\n'.join(lines)

    def guard(self, ch, t):
        g = self._guard(ch, t)
        if t.get('raising_guard'):
            # a guard that cannot be evaluated (C07: the kind of error may not depend on the declaration order)
            g = '(%s) and (1 // 0 > 0)' % g if g else '1 // 0 > 0'
        return g

    def _guard(self, ch, t):
        if t.get('ekey'):
            return 'HE(%r, event)' % t['ekey']
        if t.get('gkey'):
            return 'H(%r)' % t['gkey']
        if t.get('tguard') and t['tguard'].get('plain'):
            tg = t['tguard']
            parts = []
            if tg['after'] is not None:
                parts.append('after(%r)' % tg['after'])
            if tg['idle'] is not None:
                parts.append('idle(%r)' % tg['idle'])
            if t['guard']:
                parts.append('G(%r, event, time)' % (t.get('code_id') or t['id']))
            return ' and '.join(parts)
        if t.get('tguard'):
            tg = t['tguard']
            a = 'after(%r)' % tg['after'] if tg['after'] is not None else 'None'
            i = 'idle(%r)' % tg['idle'] if tg['idle'] is not None else 'None'
            cid = t.get('code_id') or t['id']
            return 'T(%r, %r, time, %s, %s) and G(%r, event, time)' % ('g:' + cid, t['source'], a, i, cid) \
                if t['guard'] else 'T(%r, %r, time, %s, %s)' % ('g:' + cid, t['source'], a, i)
        return 'G(%r, event, time)' % (t.get('code_id') or t['id']) if t['guard'] else None

    def cond(self, ch, owner_is_transition, cid, kind):
        if kind == 'pre':
            return 'K(%r, time, None)' % cid
        return 'K(%r, time, __old__.v)' % cid


def _fresh(name):
    """An equal but distinct str object (None stays None)."""
    if name is None:
        return None
    return ''.join(list(name)) if len(name) > 1 else name


def build_api(ch, coder=None, order=None, transitions=None, klass=None):
    """Build through add_state/add_transition.  ``order``: declaration order of states (parents
    first); ``transitions``: order of transition declarations.  Returns (statechart, tmap) where
    tmap maps id(Transition object) -> abstract id."""
    coder = coder or Coder()
    st = ch['states']
    sc = Statechart(ch.get('name', 'g'), description=ch.get('description'), preamble=ch.get('preamble'))
    for n in (order or ch['order']):
        s = st[n]
        k = s['kind']
        kw = dict(on_entry=coder.entry(ch, n), on_exit=coder.exit(ch, n))
        if k == 'compound':
            kw['initial'] = s['initial']
        elif k in ('shallow', 'deep'):
            kw['memory'] = s['memory']
        o = (klass or KLASS).get(k, KLASS[k])(n, **kw)
        for kind, attr in (('pre', 'preconditions'), ('post', 'postconditions'), ('inv', 'invariants')):
            for cid in s['contracts'][kind]:
                getattr(o, attr).append(coder.cond(ch, False, cid, kind))
        # (names are compared by value: every mention of a name is handed over as a str object of its own)
        sc.add_state(o, _fresh(s['parent']))
    tmap = {}
    for t in (transitions or ch['transitions']):
        tr = Transition(_fresh(t['source']), _fresh(t['target']), event=_fresh(t['event']), guard=coder.guard(ch, t),
                        action=coder.action(ch, t), priority=int(str(t['priority'])))       # (a fresh int object: equal priorities need not be identical objects)
        for kind, attr in (('pre', 'preconditions'), ('post', 'postconditions'), ('inv', 'invariants')):
            for cid in t['contracts'][kind]:
                getattr(tr, attr).append(coder.cond(ch, True, cid, kind))
        sc.add_transition(tr)
        tmap[id(tr)] = t['id']
    sc.validate()
    return sc, tmap


def to_document(ch, coder=None, child_order=None, transitions=None):
    """The documented YAML structure as plain dict (children in ``child_order[name]`` order)."""
    coder = coder or Coder()
    st = ch['states']
    by_src = {}
    for t in (transitions or ch['transitions']):
        by_src.setdefault(t['source'], []).append(t)

    def contract(c):
        out = []
        for cid in c['pre']:
            out.append({'before': cid})
        for cid in c['post']:
            out.append({'after': cid})
        for cid in c['inv']:
            out.append({'always': cid})
        return out

    def state(n):
        s = st[n]
        d = {'name': n}
        k = s['kind']
        if k == 'final':
            d['type'] = 'final'
        elif k == 'shallow':
            d['type'] = 'shallow history'
            d['memory'] = s['memory']
        elif k == 'deep':
            d['type'] = 'deep history'
            d['memory'] = s['memory']
        e = coder.entry(ch, n)
        x = coder.exit(ch, n)
        if e:
            d['on entry'] = e
        if x:
            d['on exit'] = x
        cc = dict(pre=[coder.cond(ch, False, c, 'pre') for c in s['contracts']['pre']],
                  post=[coder.cond(ch, False, c, 'post') for c in s['contracts']['post']],
                  inv=[coder.cond(ch, False, c, 'inv') for c in s['contracts']['inv']])
        if any(cc.values()):
            d['contract'] = contract(cc)
        if n in by_src:
            d['transitions'] = []
            for t in by_src[n]:
                td = {}
                if t['target'] is not None:
                    td['target'] = t['target']
                if t['event'] is not None:
                    td['event'] = t['event']
                g = coder.guard(ch, t)
                if g:
                    td['guard'] = g
                a = coder.action(ch, t)
                if a:
                    td['action'] = a
                if t['priority'] != 0:
                    td['priority'] = {1: 'high', -1: 'low'}.get(t['priority'], t['priority'])
                tc = dict(pre=[coder.cond(ch, True, c, 'pre') for c in t['contracts']['pre']],
                          post=[coder.cond(ch, True, c, 'post') for c in t['contracts']['post']],
                          inv=[coder.cond(ch, True, c, 'inv') for c in t['contracts']['inv']])
                if any(tc.values()):
                    td['contract'] = contract(tc)
                d['transitions'].append(td)
        kids = (child_order or {}).get(n, s['children'])
        if k == 'compound':
            d['initial'] = s['initial']
            d['states'] = [state(c) for c in kids]
        elif k == 'orthogonal':
            d['parallel states'] = [state(c) for c in kids]
        return d

    top = {'name': ch.get('name', 'g'), 'root state': state(ch['root'])}
    if ch.get('preamble'):
        top['preamble'] = ch['preamble']
    if ch.get('description'):
        top['description'] = ch['description']
    return {'statechart': top}


_REPR = [None]


def _representer():
    """strings containing U+0085 are written double-quoted, i.e. escaped (ruamel.yaml would write a line break that its
    loader folds into a space, see D19)"""
    if _REPR[0] is None:
        import ruamel.yaml

        class R(ruamel.yaml.representer.SafeRepresenter):
            def represent_str(self, data):
                if '\x85' in data:
                    return self.represent_scalar('tag:yaml.org,2002:str', data, style='"')
                return super().represent_str(data)
        R.add_representer(str, R.represent_str)
        _REPR[0] = R
    return _REPR[0]


def dump_yaml(doc):
    import io
    import ruamel.yaml
    y = ruamel.yaml.YAML(typ='safe', pure=True)
    y.Representer = _representer()
    y.default_flow_style = False
    # the harness's own documents are never folded: ruamel.yaml folds long quoted scalars that contain tabs / runs of spaces
    # in a way its loader does not invert (see D21) - a document written by the harness must say what the harness means
    y.width = 2 ** 31
    buf = io.StringIO()
    y.dump(doc, buf)
    return buf.getvalue()


def build_yaml(ch, coder=None, child_order=None, transitions=None):
    """Build through import_from_yaml.  tmap is recovered from the action code (every generated
    transition has a distinct id in its action probe)."""
    doc = to_document(ch, coder, child_order, transitions)
    sc = import_from_yaml(dump_yaml(doc))
    return sc, tmap_from_actions(ch, sc, coder)


def tmap_from_actions(ch, sc, coder=None):
    coder = coder or Coder()
    by_action = {}
    for t in ch['transitions']:
        by_action.setdefault((t['source'], (coder.action(ch, t) or '').strip()), []).append(t['id'])
    tmap = {}
    for tr in sc.transitions:
        ids = by_action[(tr.source, (tr.action or '').strip())]
        tmap[id(tr)] = ids.pop(0) if len(ids) > 1 else ids[0]       # (exact twins: which is which does not matter)
    return tmap


def build_edited(ch, rnd, coder=None):
    """The same statechart, reached through a detour of structural edits (move away and back, rename and back, add and
    remove a junk state) with executions and queries in between - whatever the Statechart caches must not survive an
    edit.  Returns (statechart, tmap, list of detours) or None if the detour did not lead back to the described chart."""
    from sismic.interpreter import Interpreter
    from sismic.model import BasicState as _Basic
    from .probes import Probes
    sc, tmap = build_api(ch, coder)
    st = ch['states']

    def warm():
        for n in sc.states:
            sc.depth_for(n)
            sc.descendants_for(n)
            sc.ancestors_for(n)
        try:
            it = Interpreter(sc, initial_context=Probes().context(v=0))
            for e in ch['events'][:3]:
                it.queue(e, u=-1)
            for _ in range(5):
                it.execute_once()
        except Exception:       # noqa – the intermediate chart may be unsound; only the caches matter here
            pass
    done = []
    _keep = []          # (objects taken out stay alive: ids must not be reused while tmap is in use)
    for op in rnd.sample(['move', 'rename', 'junk', 'move', 'readd', 'rotate'], k=rnd.randint(1, 3)):
        names = [n for n in ch['order'] if n != ch['root']]
        if not names:
            break
        composite = [n for n in names if st[n]['children']]
        if op == 'readd':
            # a leaf state is removed, added somewhere else, removed again and added back where it belongs
            leaves = [n for n in names if st[n]['kind'] in ('basic', 'final')]
            if not leaves:
                continue
            x = rnd.choice(leaves)
            p = st[x]['parent']
            cands = [n for n in ch['order'] if n != p and n != x and st[n]['kind'] in ('compound', 'orthogonal')]
            if st[x]['kind'] == 'final':
                cands = [n for n in cands if st[n]['kind'] == 'compound']
            if not cands:
                continue
            obj = sc.state_for(x)
            ts = [t for t in sc.transitions if t.source == x or t.target == x]
            if rnd.random() < 0.4:
                warm()
            sc.remove_state(x)
            sc.add_state(obj, rnd.choice(cands))
            warm()
            sc.remove_state(x)
            sc.add_state(obj, p)
            for t in ts:
                sc.add_transition(t)
            for n, s_ in st.items():
                if s_['initial'] == x:
                    sc.state_for(n).initial = x
                if s_['memory'] == x:
                    sc.state_for(n).memory = x
            done.append(('readd', x))
            continue
        if op == 'rotate':
            # a transition (preferably the later one of two equal ones) is given another source / target and then its own again
            ts = list(sc.transitions)
            if not ts:
                continue
            later_twins = [t for i, t in enumerate(ts) if any(t == o for o in ts[:i])]
            t = rnd.choice(later_twins) if later_twins and rnd.random() < 0.8 else rnd.choice(ts)
            src, tgt = t.source, t.target
            srcs = [n for n in ch['order'] if n != src and st[n]['kind'] in ('basic', 'compound', 'orthogonal')]
            if not srcs:
                continue
            if rnd.random() < 0.4:
                # the transition is taken out, declared again on another state and then given its own source: the object that is
                # registered in the end was added somewhere else
                t2 = Transition(rnd.choice(srcs), t.target, event=t.event, guard=t.guard, action=t.action, priority=t.priority)
                t2.preconditions.extend(t.preconditions)
                t2.postconditions.extend(t.postconditions)
                t2.invariants.extend(t.invariants)
                before_ids = {id(x): x for x in sc.transitions}
                sc.remove_transition(t)
                gone = [x for i, x in before_ids.items() if i not in {id(y) for y in sc.transitions}][0]     # (t or an equal twin of it)
                sc.add_transition(t2)
                tmap[id(t2)] = tmap.pop(id(gone))
                _keep.append(gone)
                warm()
                sc.rotate_transition(t2, new_source=src)
                done.append(('re-declared elsewhere and rotated home', tmap[id(t2)]))
                continue
            if rnd.random() < 0.4:
                warm()
            sc.rotate_transition(t, new_source=rnd.choice(srcs))
            warm()
            if rnd.random() < 0.5:
                sc.rotate_transition(t, new_target=rnd.choice(ch['order']))
            sc.rotate_transition(t, new_source=src, new_target=tgt)
            done.append(('rotate', tmap[id(t)]))
            continue
        if op == 'move':
            m = rnd.choice(composite if composite and rnd.random() < 0.8 else names)
            sub = set([m])
            todo = [m]
            while todo:
                x = todo.pop()
                for c in st[x]['children']:
                    sub.add(c)
                    todo.append(c)
            p = st[m]['parent']
            cands = [n for n in ch['order'] if n not in sub and n != p and st[n]['kind'] in ('compound', 'orthogonal')]
            if st[m]['kind'] in ('shallow', 'deep'):
                cands = [n for n in cands if st[n]['kind'] == 'compound']
            if not cands:
                continue
            t = rnd.choice(cands)
            if rnd.random() < 0.5:
                # a detour to a very different depth: whatever is remembered about depths there is most wrong back home
                def _depth(n):
                    d = 0
                    while n is not None:
                        n, d = st[n]['parent'], d + 1
                    return d
                far = max(abs(_depth(c) - _depth(p)) for c in cands)
                t = rnd.choice([c for c in cands if abs(_depth(c) - _depth(p)) == far])
            if rnd.random() < 0.4:
                warm()      # (a warm cache *before* the detour would hold the finally correct answers)
            sc.move_state(m, t)
            warm()
            sc.move_state(m, p)
            for n, s_ in st.items():            # move_state resets the references to the moved state: put them back
                if s_['initial'] == m:
                    sc.state_for(n).initial = m
                if s_['memory'] == m:
                    sc.state_for(n).memory = m
            if st[m]['kind'] in ('shallow', 'deep'):
                sc.state_for(m).memory = st[m]['memory']
            done.append(('move', m, t, p))
        elif op == 'rename':
            comp_all = [n for n in ch['order'] if st[n]['children']]
            x = rnd.choice(comp_all if comp_all and rnd.random() < 0.8 else ch['order'])
            if rnd.random() < 0.4:
                warm()
            sc.rename_state(x, 'TMP_' + x)
            warm()
            sc.rename_state('TMP_' + x, x)
            done.append(('rename', x))
        else:
            comp = [n for n in ch['order'] if st[n]['kind'] == 'compound']
            if not comp:
                continue
            par = rnd.choice(comp)
            sc.add_state(_Basic('JUNK'), par)
            sc.add_transition(Transition(par, 'JUNK', event='never'))
            warm()
            sc.remove_state('JUNK')
            done.append(('junk', par))
    # the detour must have led back to the described structure (what the edits do is C16's business, not ours)
    for n, s_ in st.items():
        o = sc.state_for(n)
        if sc.parent_for(n) != s_['parent'] or sorted(sc.children_for(n)) != sorted(s_['children']) or \
                getattr(o, 'initial', None) != s_['initial'] or getattr(o, 'memory', None) != s_['memory']:
            return None
    if sorted(sc.states) != sorted(st) or len(sc.transitions) != len(ch['transitions']):
        return None
    byid = {t['id']: t for t in ch['transitions']}
    for t in sc.transitions:
        d = byid[tmap[id(t)]]
        if (t.source, t.target) != (d['source'], d['target']):
            return None
    sc.validate()
    return sc, tmap, done


def build_roundtrip(ch, coder=None):
    """API build, then export_to_yaml / import_from_yaml: the chart that is executed is the re-imported one."""
    from sismic.io import export_to_yaml
    sc, _ = build_api(ch, coder)
    sc2 = import_from_yaml(export_to_yaml(sc))
    return sc2, tmap_from_actions(ch, sc2, coder)
