"""One shard: python -B -m vf.worker <id> <tier> <seed> <shard> <nshards>  ->  'RESULT <json>' on stdout."""
import importlib
import json
import sys
import time
import traceback

from .common import Inconclusive, case_rng, digest, jsonable


import os as _os
FIRST_ONLY = bool(_os.environ.get('VERIF_FIRST_VIOLATION'))


class Acc:
    """Accumulator handed to a property's run_case."""

    def __init__(self, pid, tier, seed, verbose=False):
        self.pid, self.tier, self.seed, self.verbose = pid, tier, seed, verbose
        self.counters = {}
        self.distinct = set()
        self.distinct_by = {}
        self.samples = []
        self.violations = []
        self.notes = []
        self.extra = {}
        self.evaluations = 0
        self.case = None

    def count(self, name, n=1):
        self.counters[name] = self.counters.get(name, 0) + n

    CAP = 60000      # per shard; beyond it non-trivial cases are still checked but no longer collected (conservative count)

    def nontrivial(self, obj, cls=None):
        if len(self.distinct) >= self.CAP:
            self.count('nontrivial_beyond_collection_cap')
            return
        d = obj if isinstance(obj, str) and len(obj) == 16 else digest(obj)
        self.distinct.add(d)
        if cls and len(self.distinct_by.setdefault(cls, set())) < self.CAP:
            self.distinct_by[cls].add(d)

    def klass(self, cls, obj):
        if len(self.distinct_by.setdefault(cls, set())) >= self.CAP:
            return
        d = obj if isinstance(obj, str) and len(obj) == 16 else digest(obj)
        self.distinct_by[cls].add(d)

    def sample(self, obj, limit=2):
        if len(self.samples) < limit:
            self.samples.append(jsonable(obj))

    def violation(self, key, msg, witness=None):
        self.violations.append(dict(key=key, msg=msg, witness=jsonable(witness), case=self.case))
        if self.verbose:
            print('VIOLATION-DETAIL', key, msg)
            print(json.dumps(jsonable(witness), indent=1)[:6000])

    def note_inconclusive(self, msg):
        self.notes.append(msg)

    def result(self):
        return dict(counters=self.counters, distinct=sorted(self.distinct),
                    distinct_by={k: sorted(v) for k, v in self.distinct_by.items()},
                    samples=self.samples, violations=self.violations, notes=self.notes,
                    evaluations=self.evaluations, extra=self.extra)


class Reach:
    """Which lines of the code under test (REPO/sismic/**) did this shard's workload execute?  sys.monitoring LINE events,
    each location disabled after its first hit, so the cost is negligible.  Evidence only (never part of a verdict)."""
    TOOL = 1

    def __init__(self):
        self.hits = {}
        self.on = False

    def start(self):
        import os
        import sys
        from .common import REPO
        mon = getattr(sys, 'monitoring', None)
        if mon is None or os.environ.get('VERIF_NO_REACH'):
            return
        try:
            mon.use_tool_id(self.TOOL, 'vf-reach')
        except ValueError:
            return
        prefix = os.path.join(REPO, 'sismic') + os.sep
        hits = self.hits
        DISABLE = mon.DISABLE

        def on_line(code, line):
            fn = code.co_filename
            if fn.startswith(prefix):
                hits.setdefault(fn[len(REPO) + 1:], {}).setdefault(code.co_qualname, set()).add(line)
            return DISABLE
        mon.register_callback(self.TOOL, mon.events.LINE, on_line)
        mon.set_events(self.TOOL, mon.events.LINE)
        self.on = True

    def result(self):
        return {f: {q: sorted(ls) for q, ls in d.items()} for f, d in self.hits.items()}


def run_cases(pid, tier, seed, cases, verbose=False, shard=0, nshards=1):
    mod = importlib.import_module('vf.props.%s' % pid.lower())
    acc = Acc(pid, tier, seed, verbose)
    reach = Reach()
    reach.start()
    acc.reach = reach
    if hasattr(mod, 'setup_shard'):
        mod.setup_shard(acc, shard, nshards)
    for c in cases:
        acc.case = c
        rnd = case_rng(pid, tier, seed, c)
        try:
            mod.run_case(acc, rnd, tier, c)
        except Inconclusive as e:
            acc.note_inconclusive('case %s: %s' % (c, e))
        except Exception:       # a crash of the harness itself is never a verdict
            acc.note_inconclusive('case %s: harness error: %s' % (c, traceback.format_exc()[-1800:]))
        acc.evaluations += 1
        if acc.violations and FIRST_ONLY:
            break       # (matrix runs over the seeded changes: one witness per shard is enough to say "caught")
    if hasattr(mod, 'finish_shard'):
        mod.finish_shard(acc, shard, nshards)
    r = acc.result()
    r['reach'] = reach.result()
    return r


def main(argv):
    pid, tier, seed, shard, nshards = argv[0], argv[1], int(argv[2]), int(argv[3]), int(argv[4])
    mod = importlib.import_module('vf.props.%s' % pid.lower())
    plan = mod.plan(tier)
    cases = list(range(shard, plan['cases'], nshards))
    t0 = time.time()
    r = run_cases(pid, tier, seed, cases, shard=shard, nshards=nshards)
    r['shard_wall'] = time.time() - t0
    sys.stdout.write('RESULT ' + json.dumps(r, default=repr) + '\n')
    return 0


if __name__ == '__main__':
    sys.exit(main(sys.argv[1:]))
