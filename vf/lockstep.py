"""Lock-step differential harness (DESIGN §3.2): several *real* interpreters, same input history,
canonical projection of every macro step compared after every execute_once.  No model involved."""
from .common import import_sismic
from .probes import ev_id

import_sismic()
from sismic.model import Event, InternalEvent, MetaEvent  # noqa: E402

DT = (0.125, 0.5, 1, 1, 1, 2, 5)
DELAYS = (0, 0, 0, 0.125, 1, 1, 2, 5)


def gen_script(rnd, events, nsteps, p_queue=0.5, p_clock=0.3, extra_names=('zz',), params=False):
    """Input history: list of ops ('queue', [(name, uid, delay, params)]) / ('clock', dt) / ('step',)."""
    ops = []
    uid = 0
    for k in range(nsteps):
        if k > 0 and rnd.random() < p_queue:
            evs = []
            for _ in range(rnd.choice((1, 1, 1, 2, 3))):
                uid += 1
                pr = {}
                if params and rnd.random() < 0.5:
                    pr = {'x': rnd.randint(0, 3)}
                evs.append((rnd.choice(list(events) + list(extra_names)), uid, rnd.choice(DELAYS), pr))
            ops.append(('queue', evs))
        if rnd.random() < p_clock:
            ops.append(('clock', rnd.choice(DT)))
        ops.append(('step',))
    return ops


def freeze(x):
    if isinstance(x, dict):
        return tuple(sorted((str(k), freeze(v)) for k, v in x.items()))
    if isinstance(x, (list, tuple)):
        return tuple(freeze(i) for i in x)
    if isinstance(x, (set, frozenset)):
        return tuple(sorted(freeze(i) for i in x))
    if isinstance(x, Event):
        return (type(x).__name__, x.name, freeze(x.data))
    if isinstance(x, (str, int, float, bool)) or x is None:
        return x
    return repr(x)


def project_event(ev, ren=None):
    if ev is None:
        return None
    return (type(ev).__name__, ev.name, freeze(ev.data))


def project_step(step, tmap, ren=None):
    """Canonical projection of a MacroStep. ``ren`` maps state names (for rename/copy comparisons)."""
    if step is None:
        return None
    r = (lambda n: n) if ren is None else (lambda n: ren.get(n, n))
    micro = []
    for ms in step.steps:
        tid = None
        if ms.transition is not None:
            tid = tmap.get(id(ms.transition)) if tmap is not None else \
                (r(ms.transition.source), r(ms.transition.target) if ms.transition.target else None, ms.transition.event)
        micro.append((tid, tuple(r(s) for s in ms.exited_states), tuple(r(s) for s in ms.entered_states),
                      tuple(project_event(e) for e in ms.sent_events), project_event(ms.event)))
    return (step.time, project_event(step.event), tuple(micro))


def project_context(ctx, skip=()):
    out = {}
    for k, v in ctx.items():
        if callable(v) or k in skip:
            continue
        out[k] = freeze(v)
    return freeze(out)


class Runner:
    """Drives one interpreter through a script, one op at a time, recording observations."""

    def __init__(self, it, tmap, ren=None, log=None, ctx_skip=()):
        self.it, self.tmap, self.ren, self.log, self.ctx_skip = it, tmap, ren, log, ctx_skip
        self.obs = []
        self.dead = False

    def apply(self, op, stepno=None, on_step=None):
        it = self.it
        if op[0] == 'queue':
            objs = []
            for name, uid, d, pr in op[1]:
                kw = dict(pr)
                kw['u'] = uid
                if d:
                    kw['delay'] = d
                objs.append(Event(name, **kw))
            it.queue(*objs)
            return None
        if op[0] == 'clock':
            it.clock.time += op[1]
            return None
        if op[0] == 'queue_internal':
            # an InternalEvent instance handed to queue() from outside: it goes to the internal queue; nothing was *sent*
            # (the CHANGELOG says queue() no longer accepts InternalEvent while the code does: an interpreter that refuses it
            # is as right as one that takes it - the op is then simply without effect)
            from sismic.model import InternalEvent
            try:
                it.queue(InternalEvent(op[1], u=op[2]))
            except (ValueError, TypeError):
                pass
            return None
        if op[0] == 'step':
            if self.log is not None:
                del self.log[:]
            try:
                step = it.execute_once()
                o = ('step', project_step(step, self.tmap, self.ren))
            except Exception as e:  # noqa
                step = None
                o = ('raise', type(e).__name__)
                self.last_error = e
            r = (lambda n: n) if self.ren is None else (lambda n: self.ren.get(n, n))
            o = o + (tuple(sorted(r(s) for s in it.configuration)), project_context(it.context, self.ctx_skip), it.final)
            self.obs.append(o)
            self.last_step = step
            return o
        raise ValueError(op)


def first_difference(a, b):
    """Human-readable first difference between two observation tuples."""
    if a[0] != b[0]:
        return 'outcome %r vs %r' % (a[:2] if a[0] == 'raise' else a[0], b[:2] if b[0] == 'raise' else b[0])
    if a[1] != b[1]:
        if a[0] == 'raise':
            return 'error kind %s vs %s' % (a[1], b[1])
        sa, sb = a[1], b[1]
        if sa is None or sb is None:
            return 'step %r vs %r' % (sa, sb)
        if sa[0] != sb[0]:
            return 'step time %r vs %r' % (sa[0], sb[0])
        if sa[1] != sb[1]:
            return 'consumed event %r vs %r' % (sa[1], sb[1])
        for i, (ma, mb) in enumerate(zip(sa[2], sb[2])):
            if ma != mb:
                for what, xa, xb in zip(('transition', 'exited', 'entered', 'sent', 'event'), ma, mb):
                    if xa != xb:
                        return 'micro step %d %s: %r vs %r' % (i, what, xa, xb)
        return 'number of micro steps %d vs %d' % (len(sa[2]), len(sb[2]))
    if a[2] != b[2]:
        return 'configuration %r vs %r' % (a[2], b[2])
    if a[3] != b[3]:
        return 'context %r vs %r' % (a[3], b[3])
    if a[4] != b[4]:
        return 'final %r vs %r' % (a[4], b[4])
    return None


def benign(err):
    """Exceptions a run of a *generated* chart may legitimately end with (the generator does not avoid conflicts)."""
    return type(err).__name__ in ('NonDeterminismError', 'ConflictingTransitionsError')
