"""Small multi-threaded scenarios run under the controlled scheduler (vf.sched), used by C05 (queue() from other threads
while execute_once runs) and C15 (two bound interpreters stepped by two threads).  Same rules as C20: seeded
interleavings at interposed points + line-level yields, logical deadlock detection, watchdog = inconclusive."""
from collections import Counter

from .common import import_sismic
from .sched import CLock, LineYields, Sched, YList

import_sismic()
from sismic.interpreter import Interpreter  # noqa: E402
from sismic.model import BasicState, CompoundState, Event, InternalEvent, Statechart, Transition  # noqa: E402

LINES = LineYields()


def instrument(it, S, H, label):
    for a, v in list(vars(it).items()):
        if type(v).__module__ == '_thread' or type(v).__name__ in ('RLock', 'lock'):
            setattr(it, a, CLock(S, '%s.%s' % (label, a), H))
    for qn in ('_external_queue', '_internal_queue'):
        if isinstance(getattr(it, qn, None), list):
            setattr(it, qn, YList(getattr(it, qn)).bind(S, '%s.%s' % (label, qn), H))


def line_functions():
    return [getattr(Interpreter, n) for n in ('queue', '_queue_event', '_select_event', 'execute_once', '_raise_event')
            if hasattr(Interpreter, n)]


def toggler(sends=None):
    sc = Statechart('toggle')
    sc.add_state(CompoundState('root', initial='a'), None)
    sc.add_state(BasicState('a'), 'root')
    sc.add_state(BasicState('b'), 'root')
    act = None if not sends else '\n'.join("send(%r, src=event.u)" % s for s in sends)
    sc.add_transition(Transition('a', 'b', event='x', action=act))
    sc.add_transition(Transition('b', 'a', event='x', action=act))
    return sc


def queue_vs_execute(acc, rnd, focus):
    """C05 under threads: two clients queue events while a third thread calls execute_once."""
    strategy = rnd.choice(('random', 'random', 'sticky', 'pct'))
    S = Sched(rnd, strategy)
    H = []
    it = Interpreter(toggler())
    instrument(it, S, H, 'it')
    if rnd.random() < 0.7 and LINES.install(line_functions()):
        S.line_mode = True
        LINES.current = S
    queued = {}
    consumed = []
    uid = [0]

    def client(name, n):
        def body():
            for _ in range(n):
                uid[0] += 1
                u = uid[0]
                d = rnd.choice((0, 0, 0, 5))
                queued[u] = (name, d)
                H.append(('call', name, 'queue', u, d))
                it.queue(Event(rnd.choice('xy'), u=u, delay=d) if d else Event(rnd.choice('xy'), u=u))
                H.append(('ret', name, 'queue', u))
                S.yield_('client between ops')
        return body

    def executor():
        for _ in range(rnd.randint(3, 10)):
            if rnd.random() < 0.5:
                it.clock.time += rnd.choice((1, 5))         # the step time moves while clients are inside queue()
            step = it.execute_once()
            if step is not None and step.event is not None:
                consumed.append(step.event.data.get('u'))
                H.append(('exec', step.event.data.get('u')))
            S.yield_('executor between steps')
    try:
        S.spawn('q1', client('q1', rnd.randint(2, 5)))
        if rnd.random() < 0.6:
            S.spawn('q2', client('q2', rnd.randint(1, 4)))
        S.spawn('ex', executor)
        verdict = S.run(max_switches=20000)
    finally:
        LINES.current = None
    acc.count('threaded_schedules')
    wit = dict(strategy=strategy, verdict=verdict, history=[list(map(str, h)) for h in H][-80:],
               interleaving=['%s:%s' % t for t in S.trace][-120:])
    for n, e in S.errors:
        acc.violation('%s:exception-in-thread' % focus, 'thread %s died with %s: %s (queue() racing with execute_once)'
                      % (n, type(e).__name__, str(e)[:200]), wit)
        return
    if verdict == 'deadlock':
        acc.violation('%s:deadlock' % focus, 'logical deadlock between queue() and execute_once: %r' % (S.deadlock,), wit)
        return
    if verdict != 'done':
        if verdict == 'watchdog':
            acc.note_inconclusive('threaded schedule: watchdog')
        return
    # drain single-threaded
    it.clock.time = 1000
    for _ in range(len(queued) + 5):
        step = it.execute_once()
        if step is None:
            break
        if step.event is not None:
            consumed.append(step.event.data.get('u'))
    cnt = Counter(consumed)
    bad = [u for u in queued if cnt[u] != 1]
    if bad or any(u not in queued for u in consumed):
        acc.violation('%s:threaded-lost-or-duplicated' % focus, 'events queued from other threads while execute_once ran: %r were '
                      'not consumed exactly once (consumed: %r)' % ([(u, cnt[u]) for u in bad[:6]], consumed), wit)
        return
    pos = {u: i for i, u in enumerate(consumed)}
    by = {}
    for u, (c, d) in queued.items():
        by.setdefault((c, d), []).append(u)
    for (c, d), us in by.items():
        if [pos[u] for u in us] != sorted(pos[u] for u in us):
            acc.violation('%s:threaded-fifo' % focus, 'thread %s queued %r (delay %r) in that order, consumed as %r'
                          % (c, us, d, sorted(us, key=lambda u: pos[u])), wit)
            return
    acc.count('threaded_events_exactly_once', len(queued))
    acc.klass('threaded_interleavings', S.interleaving_digest())


def bound_cycle(acc, rnd, focus):
    """C15 under threads: two interpreters bound to each other, each stepped by its own thread."""
    strategy = rnd.choice(('random', 'random', 'sticky', 'pct'))
    S = Sched(rnd, strategy)
    H = []
    A = Interpreter(toggler(sends=['y']))
    B = Interpreter(toggler(sends=['y']))
    recv = {'A': [], 'B': []}
    instrument(A, S, H, 'A')
    instrument(B, S, H, 'B')
    A.bind(B)
    B.bind(A)
    A.bind(lambda e: recv['A'].append(('cb', e.name, e.data.get('src'))))
    sent = {'A': [], 'B': []}
    got = {'A': [], 'B': []}

    def stepper(name, it, n):
        def body():
            for i in range(n):
                it.queue(Event('x', u='%s%d' % (name, i)))
                for _ in range(2):
                    step = it.execute_once()
                    if step is not None:
                        for e in step.sent_events:
                            if isinstance(e, InternalEvent):
                                sent[name].append(e.data.get('src'))
                        if step.event is not None and step.event.name == 'y' and not isinstance(step.event, InternalEvent):
                            got[name].append(step.event.data.get('src'))
                    S.yield_('between steps')
        return body
    S.spawn('tA', stepper('A', A, rnd.randint(2, 4)))
    S.spawn('tB', stepper('B', B, rnd.randint(2, 4)))
    verdict = S.run(max_switches=20000)
    acc.count('threaded_schedules')
    wit = dict(strategy=strategy, verdict=verdict, history=[list(map(str, h)) for h in H][-80:],
               interleaving=['%s:%s' % t for t in S.trace][-120:])
    for n, e in S.errors:
        acc.violation('%s:exception-in-thread' % focus, 'thread %s died with %s: %s' % (n, type(e).__name__, str(e)[:200]), wit)
        return
    if verdict == 'deadlock':
        acc.violation('%s:deadlock-between-bound-interpreters' % focus, 'two interpreters bound to each other and stepped by two '
                      'threads block each other: %r' % (S.deadlock,), wit)
        return
    if verdict != 'done':
        if verdict == 'watchdog':
            acc.note_inconclusive('threaded schedule: watchdog')
        return
    # drain: everything A sent must be consumed by B as an external event exactly once, and vice versa
    for name, it in (('A', A), ('B', B)) * 3:        # (what one sends while draining reaches the other: several rounds)
        for _ in range(40):
            step = it.execute_once()
            if step is None:
                break
            if step.event is not None and step.event.name == 'y' and not isinstance(step.event, InternalEvent):
                got[name].append(step.event.data.get('src'))
            for e in step.sent_events:
                if isinstance(e, InternalEvent):
                    sent[name].append(e.data.get('src'))
    for s, r in (('A', 'B'), ('B', 'A')):
        if sorted(map(str, sent[s])) != sorted(map(str, got[r])):
            acc.violation('%s:threaded-delivery' % focus, 'interpreter %s sent %r, its bound peer consumed %r' % (s, sent[s], got[r]), wit)
            return
        if [x for x in got[r]] != [x for x in sent[s]]:
            acc.violation('%s:threaded-delivery-order' % focus, 'interpreter %s sent %r in that order, peer consumed %r' % (s, sent[s], got[r]), wit)
            return
    acc.count('threaded_deliveries_checked', len(sent['A']) + len(sent['B']))
    acc.klass('threaded_interleavings', S.interleaving_digest())

