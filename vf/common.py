"""Shared bootstrap: locate the sismic tree under test and import it from there (never from site-packages)."""
import hashlib
import json
import os
import sys

VERIF_DIR = os.path.dirname(os.path.dirname(os.path.abspath(__file__)))
REPO = os.path.abspath(os.environ.get('VERIF_REPO', '/repo'))
PYTHON = os.environ.get('VERIF_PYTHON', '/venv/bin/python')

if REPO not in sys.path[:1]:
    sys.path.insert(0, REPO)


class Inconclusive(Exception):
    """The deciding monitor could not run / was never reached.  Never folded into held or violated."""


def import_sismic():
    import sismic
    where = os.path.abspath(os.path.dirname(sismic.__file__))
    if not where.startswith(REPO + os.sep):
        raise Inconclusive('sismic imported from %s, not from %s' % (where, REPO))
    return sismic


def digest(obj) -> str:
    """Short stable digest of a JSON-able object (used to count *distinct* cases)."""
    s = json.dumps(obj, sort_keys=True, default=repr, separators=(',', ':'))
    return hashlib.blake2b(s.encode('utf8'), digest_size=8).hexdigest()


def case_rng(prop: str, tier: str, seed: int, case: int):
    import random
    return random.Random('%s/%s/%d/%d' % (prop, tier, seed, case))


def jsonable(x, depth=0):
    """Best-effort conversion of witnesses to JSON."""
    if depth > 8:
        return repr(x)
    if isinstance(x, (str, int, float, bool)) or x is None:
        return x
    if isinstance(x, (list, tuple, set, frozenset)):
        xs = list(x)
        if isinstance(x, (set, frozenset)):
            xs = sorted(xs, key=repr)
        return [jsonable(i, depth + 1) for i in xs]
    if isinstance(x, dict):
        return {str(k): jsonable(v, depth + 1) for k, v in x.items()}
    return repr(x)
