"""C03 order rules and configuration recomputation over one returned MacroStep (model independent).

Used by the generated-chart monitor (vf.execmon) and by the shipped-chart monitor (vf.shipped)."""
from .gen import HKINDS
from .refmodel import legal


def order_rules(ch, tr, step, before, cfg_after, counts):
    """None if every rule holds, else (key, message)."""
    st = ch['states']
    # (b) order rules & (c) configuration recomputation ---------------------------------------------
    cfg = set(before)
    tms = [ms for ms in step.steps if ms.transition is not None]
    keys = [(-tr.depth(ms.transition.source), ms.transition.source) for ms in tms]
    if keys != sorted(keys):
        return ('transition-order', 'transitions processed in order %r, expected by decreasing source '
                    'depth then name' % [ms.transition.source for ms in tms])
    first_t = True
    for i, ms in enumerate(step.steps):
        ex, en = ms.exited_states, ms.entered_states
        if ms.transition is not None:
            if not first_t:
                lg = legal(ch, cfg)
                if lg is not True and cfg:
                    return ('next-transition-before-stable', 'transition %s started while configuration '
                                'was not stable: %s' % (ms.transition, lg))
            first_t = False
            t = ms.transition
            if t.target is None:
                if ex or en:
                    return ('internal-exits-or-enters', 'internal transition exited %r entered %r' % (ex, en))
            else:
                sa = tr.anc(t.source)
                ga = tr.anc(t.target)
                lca = next((x for x in sa if x in ga), None)
                top = t.source
                for x in sa:
                    if x == lca:
                        break
                    top = x
                scope = set([top] + tr.desc(top))
                want = cfg & scope
                if set(ex) != want or len(ex) != len(set(ex)):
                    return ('exit-set', 'transition %s->%s exited %r, active states in its scope are %r'
                                % (t.source, t.target, ex, sorted(want)))
                path = [t.target]
                for x in ga:
                    if x == lca:
                        break
                    path.insert(0, x)
                if en != path:
                    return ('entry-path', 'transition %s->%s entered %r, target path is %r'
                                % (t.source, t.target, en, path))
        else:
            # stabilisation / initial / event-only micro step
            for s in ex:
                if not (st[s]['kind'] in HKINDS or st[s]['kind'] == 'final' or s == ch['root']):
                    return ('stabilisation-exits', 'stabilisation micro step exited %r' % ex)
        # innermost-first / outermost-first
        for a in range(len(ex)):
            for b in range(a + 1, len(ex)):
                if ex[a] in tr.anc(ex[b]):
                    return ('exit-not-innermost-first', '%s exited before its descendant %s' % (ex[a], ex[b]))
        for a in range(len(en)):
            for b in range(a + 1, len(en)):
                if en[b] in tr.anc(en[a]):
                    return ('entry-not-outermost-first', '%s entered before its ancestor %s' % (en[a], en[b]))
        # orthogonal siblings in name order inside one list
        for lst, what in ((ex, 'exited'), (en, 'entered')):
            byp = {}
            for s in lst:
                p = st[s]['parent']
                if p is not None and st[p]['kind'] == 'orthogonal':
                    byp.setdefault(p, []).append(s)
            for p, kids in byp.items():
                if kids != sorted(kids):
                    return ('orthogonal-siblings-order', 'regions of %s %s in order %r, not in name order'
                                % (p, what, kids))
                if len(kids) >= 2:
                    counts['c03_orth_sibling_lists'] = counts.get('c03_orth_sibling_lists', 0) + 1
        for s in ex:
            if s not in cfg:
                return ('exited-inactive', 'state %s exited but was not active' % s)
            cfg.discard(s)
        for s in en:
            if s in cfg:
                return ('entered-active', 'state %s entered but was already active' % s)
            p = st[s]['parent']
            if p is not None and p not in cfg:
                return ('entered-under-inactive-parent', 'state %s entered while parent %s inactive' % (s, p))
            cfg.add(s)
    if cfg != set(cfg_after):
        return ('configuration-not-recomputable', 'replaying exited/entered lists gives %r, configuration is %r'
                    % (sorted(cfg), cfg_after))

    return None
